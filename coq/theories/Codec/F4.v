(* Codec/F4.v — executable model of the F4 "cycle reference" helper
   (base/src/expressions/lexer/util.rs: next_state, cycle_endpoint, cycle_token_text,
   cycle_reference). No proofs in this file.

   The lexer is NOT modelled: [cycle_reference] takes the marked tokens of the formula body
   (is it a Reference/Range token, start, end — what [get_tokens_with_locale] returns) as an
   input; the harness passes the implementation's token list for every case.
   [char::is_whitespace] is the parameter [ws]; [f4_ws] is the executable instance (the
   Unicode White_Space set), compared with the Rust standard library on every run. *)
From IronCalc Require Import Base.Prelude.

Definition DOLLAR : Z := 36.
Definition QUOTE : Z := 39.
Definition BANG : Z := 33.
Definition COLON : Z := 58.
Definition EQUALS : Z := 61.

Definition is_ascii_alpha (c : Z) : bool := is_upper c || is_lower c.

Definition is_nil {A} (l : list A) : bool := match l with [] => true | _ => false end.

(* [while i < n && p(s[i]) { i += 1 }] : the characters consumed and the rest *)
Fixpoint span (p : Z -> bool) (s : text) : text * text :=
  match s with
  | c :: r => if p c then let (a, b) := span p r in (c :: a, b) else ([], s)
  | [] => ([], [])
  end.

(* [if s[i] == '$' { flag = true; i += 1 }] *)
Definition eat_dollar (s : text) : bool * text :=
  match s with
  | c :: r => if c =? DOLLAR then (true, r) else (false, s)
  | [] => (false, s)
  end.

(* A1 -> $A$1 -> A$1 -> $A1 -> A1 *)
Definition next_state (absolute_column absolute_row : bool) : bool * bool :=
  match absolute_column, absolute_row with
  | false, false => (true, true)
  | true, true => (false, true)
  | false, true => (true, false)
  | true, false => (false, false)
  end.

Definition dollar_if (b : bool) : text := if b then [DOLLAR] else [].

(* the text [$]column[$]row the function rebuilds *)
Definition mk_endpoint (abs_col : bool) (column : text) (abs_row : bool) (row : text) : text :=
  dollar_if abs_col ++ column ++ dollar_if abs_row ++ row.

Definition upper (s : text) : text := map to_ascii_upper s.

Definition cycle_endpoint (part : text) : text :=
  let (absolute_column, r1) := eat_dollar part in
  let (column, r2) := span is_ascii_alpha r1 in
  let (absolute_row, r3) := eat_dollar r2 in
  let (row, r4) := span is_digit r3 in
  if negb (is_nil r4) || (is_nil column && is_nil row) then part
  else
    let (new_column, new_row) :=
      if is_nil column then (false, negb (absolute_column || absolute_row))
      else if is_nil row then (negb absolute_column, false)
      else next_state absolute_column absolute_row in
    mk_endpoint new_column (upper column) new_row row.

(* the loop copying a quoted sheet name, entered after the opening quote: what is copied
   (including the closing quote, doubled quotes kept) and what follows *)
Fixpoint copy_quoted (s : text) : text * text :=
  match s with
  | [] => ([], [])
  | c :: r =>
    if c =? QUOTE then
      match r with
      | c2 :: r' =>
        if c2 =? QUOTE then let (a, b) := copy_quoted r' in (QUOTE :: QUOTE :: a, b)
        else ([QUOTE], r)
      | [] => ([QUOTE], [])
      end
    else let (a, b) := copy_quoted r in (c :: a, b)
  end.

(* [text.iter().skip(i).position(|c| c == '!')] : the prefix up to and including the first
   '!' and what follows; None when there is no '!' *)
Fixpoint split_bang (s : text) : option (text * text) :=
  match s with
  | [] => None
  | c :: r =>
    if c =? BANG then Some ([c], r)
    else match split_bang r with Some (a, b) => Some (c :: a, b) | None => None end
  end.

(* the endpoint loop: split at every ':' *)
Fixpoint split_colon (s : text) : list text :=
  match s with
  | [] => [[]]
  | c :: r =>
    if c =? COLON then [] :: split_colon r
    else match split_colon r with h :: t => (c :: h) :: t | [] => [[c]] end
  end.

Fixpoint join_colon (l : list text) : text :=
  match l with
  | [] => []
  | [p] => p
  | p :: r => p ++ COLON :: join_colon r
  end.

Definition cycle_parts (s : text) : text := join_colon (map cycle_endpoint (split_colon s)).

(* the sheet prefix [cycle_token_text] copies, and the rest it splits into endpoints *)
Definition split_prefix (r : text) : text * text :=
  match r with
  | c :: r1 =>
    if c =? QUOTE then
      let (q, r2) := copy_quoted r1 in
      match r2 with
      | b :: r3 => if b =? BANG then (QUOTE :: q ++ [BANG], r3) else (QUOTE :: q, r2)
      | [] => (QUOTE :: q, r2)
      end
    else match split_bang r with Some (p, r2) => (p, r2) | None => ([], r) end
  | [] => ([], [])
  end.

Section WS.
  Variable ws : Z -> bool.

  Definition cycle_token_text (t : text) : text :=
    let (blanks, r) := span ws t in
    let (prefix, rest) := split_prefix r in
    blanks ++ prefix ++ cycle_parts rest.

  (* ---- cycle_reference ----------------------------------------------------------------- *)
  Record mtoken := { t_ref : bool; t_start : Z; t_end : Z }.

  (* [&v[a..b]] : panics unless a <= b <= len *)
  Definition slice (v : text) (a b : Z) : outcome text :=
    if (0 <=? a) && (a <=? b) && (b <=? Z.of_nat (length v))
    then Ok (firstn (Z.to_nat (b - a)) (skipn (Z.to_nat a) v))
    else Panic.

  Record cstate := { c_result : text; c_copied : Z; c_first : option Z; c_last : Z }.

  Definition lenZ (s : text) : Z := Z.of_nat (length s).

  (* one iteration of the [for marked in tokens] loop; [result] is kept without the
     leading '=' (so its length is one less than the Rust vector's) *)
  Definition step_token (body : text) (sel_start sel_end : Z) (st : cstate) (m : mtoken)
    : outcome cstate :=
    if negb (t_ref m) then Ok st
    else
      let token_start := Z.max (t_start m) 0 + 1 in
      let token_end := Z.max (t_end m) 0 + 1 in
      if (token_start >? sel_end) || (sel_start >? token_end) then Ok st
      else
        obind (slice body (c_copied st) (token_start - 1)) (fun gap =>
        obind (slice body (token_start - 1) (token_end - 1)) (fun token_text =>
          let result1 := c_result st ++ gap in
          let first :=
            match c_first st with
            | Some x => Some x
            | None => Some (1 + lenZ result1 + lenZ (fst (span ws token_text)))
            end in
          let result2 := result1 ++ cycle_token_text token_text in
          Ok {| c_result := result2; c_copied := token_end - 1; c_first := first;
                c_last := 1 + lenZ result2 |})).

  Fixpoint run_tokens (body : text) (sel_start sel_end : Z) (st : cstate) (toks : list mtoken)
    : outcome cstate :=
    match toks with
    | [] => Ok st
    | m :: r => obind (step_token body sel_start sel_end st m) (fun st' =>
                  run_tokens body sel_start sel_end st' r)
    end.

  (* [start]/[end] are usize: the harness only passes non-negative values *)
  Definition cycle_reference (value : text) (start end_ : Z) (toks : list mtoken)
    : outcome (text * Z * Z) :=
    let n := lenZ value in
    if (start >? n) || (end_ >? n) then Err
    else
      let (sel_start, sel_end) := if start <=? end_ then (start, end_) else (end_, start) in
      match value with
      | c :: body =>
        if c =? EQUALS then
          obind (run_tokens body sel_start sel_end
                   {| c_result := []; c_copied := 0; c_first := None; c_last := 0 |} toks)
            (fun st =>
               match c_first st with
               | None => Ok (value, start, end_)
               | Some first_start =>
                 obind (slice body (c_copied st) (lenZ body)) (fun tail =>
                   let new_value := EQUALS :: c_result st ++ tail in
                   if start =? end_ then Ok (new_value, c_last st, c_last st)
                   else Ok (new_value, first_start, c_last st))
               end)
        else Ok (value, start, end_)
      | [] => Ok (value, start, end_)
      end.
End WS.

(* char::is_whitespace = the Unicode White_Space property *)
Definition f4_ws (c : Z) : bool :=
  ((9 <=? c) && (c <=? 13)) || (c =? 32) || (c =? 133) || (c =? 160) || (c =? 5760)
  || ((8192 <=? c) && (c <=? 8202)) || (c =? 8232) || (c =? 8233) || (c =? 8239)
  || (c =? 8287) || (c =? 12288).

Definition cycle_token_text_x := cycle_token_text f4_ws.
Definition cycle_reference_x := cycle_reference f4_ws.
