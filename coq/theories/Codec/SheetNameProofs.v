(* Codec/SheetNameProofs.v — every sheet name, quoted the way the engine quotes it, is read
   back by the lexer as exactly that name; R1C1 references print and lex back. *)
From IronCalc Require Import Base.Prelude Base.Dec Codec.Column Codec.RefA1 Codec.RefRC Codec.SheetName.

Section Names.
  Variable alpha alnum ws : Z -> bool.
  (* the only facts about the Rust character classes the proofs use *)
  Hypothesis ws_quote : ws 39 = false.
  Hypothesis ws_bang : ws 33 = false.
  Hypothesis ws_underscore : ws 95 = false.
  Hypothesis alpha_not_ws : forall c, alpha c = true -> ws c = false.
  Hypothesis bang_not_alnum : alnum 33 = false.
  Hypothesis quote_not_alpha : alpha 39 = false.

  Notation scan := scan_quoted.
  Notation lexp := (lex_sheet_prefix alpha alnum ws).
  Notation qn := (quote_name alpha alnum).

  Lemma scan_doubled n b rest :
    b <> 39 ->
    scan (double_quotes n ++ 39 :: b :: rest) = Some (double_quotes n, b :: rest).
  Proof.
    intro Hb. apply Z.eqb_neq in Hb.
    induction n as [|c n IH]; cbn [double_quotes app scan_quoted].
    - cbn [Z.eqb Pos.eqb]. rewrite Hb. reflexivity.
    - destruct (c =? 39) eqn:E.
      + cbn [app scan_quoted Z.eqb Pos.eqb]. rewrite IH. reflexivity.
      + cbn [app scan_quoted]. rewrite E. rewrite IH. reflexivity.
  Qed.

  Lemma undouble_doubled n : undouble (double_quotes n) = n.
  Proof.
    induction n as [|c n IH]; [reflexivity|]. cbn [double_quotes].
    destruct (c =? 39) eqn:E.
    - apply Z.eqb_eq in E. subst c. cbn [undouble Z.eqb Pos.eqb]. rewrite IH. reflexivity.
    - cbn [undouble]. rewrite E, IH. reflexivity.
  Qed.

  Theorem quoted_roundtrip n rest :
    name_needs_quoting alpha alnum n = true ->
    lexp (qn n ++ 33 :: rest) = Some (n, rest).
  Proof.
    intro Hq. unfold quote_name. rewrite Hq. unfold lex_sheet_prefix.
    cbn [app skip_ws]. rewrite ws_quote. cbn [Z.eqb Pos.eqb].
    rewrite <- app_assoc. cbn [app].
    rewrite scan_doubled by lia.
    cbn [skip_ws]. rewrite ws_bang. cbn [Z.eqb Pos.eqb]. rewrite undouble_doubled. reflexivity.
  Qed.

  Lemma span_ident_all n rest :
    forallb (ident_char alnum) n = true ->
    span_ident alnum (n ++ 33 :: rest) = (n, 33 :: rest).
  Proof.
    induction n as [|c n IH]; intro H.
    - cbn [app span_ident]. unfold ident_char. rewrite bang_not_alnum. reflexivity.
    - cbn [forallb] in H. apply andb_true_iff in H as [Hc Hn].
      cbn [app span_ident]. rewrite Hc, IH by exact Hn. reflexivity.
  Qed.

  Lemma not_needs_quoting n :
    name_needs_quoting alpha alnum n = false ->
    forallb (ident_char alnum) n = true /\
    match n with c :: _ => ident_start alpha c = true | [] => True end.
  Proof.
    unfold name_needs_quoting. intro H.
    apply orb_false_iff in H as [H _]. apply orb_false_iff in H as [H _].
    apply orb_false_iff in H as [H1 H2]. split.
    - clear H2. induction n as [|c n IH]; [reflexivity|].
      cbn [existsb forallb] in *. apply orb_false_iff in H1 as [Hc Hn].
      apply negb_false_iff in Hc. rewrite Hc, IH by exact Hn. reflexivity.
    - destruct n as [|c n]; [exact I|]. apply negb_false_iff in H2. exact H2.
  Qed.

  Theorem plain_roundtrip n rest :
    n <> [] -> name_needs_quoting alpha alnum n = false ->
    lexp (qn n ++ 33 :: rest) = Some (n, rest).
  Proof.
    intros Hne Hq. unfold quote_name. rewrite Hq.
    destruct (not_needs_quoting n Hq) as [Hall Hfirst].
    destruct n as [|c n]; [congruence|].
    assert (Hws : ws c = false).
    { unfold ident_start in Hfirst. apply orb_true_iff in Hfirst as [Ha|Hu].
      - apply alpha_not_ws; exact Ha.
      - apply Z.eqb_eq in Hu. subst c. exact ws_underscore. }
    assert (Hc39 : (c =? 39) = false).
    { destruct (c =? 39) eqn:E; [|reflexivity]. apply Z.eqb_eq in E. subst c.
      unfold ident_start in Hfirst. rewrite quote_not_alpha in Hfirst. discriminate. }
    unfold lex_sheet_prefix. cbn [app skip_ws]. rewrite Hws, Hc39, Hfirst.
    change (c :: n ++ 33 :: rest) with ((c :: n) ++ 33 :: rest).
    rewrite span_ident_all by exact Hall. cbn [Z.eqb Pos.eqb]. reflexivity.
  Qed.

  (* the full statement of the sheet-name clause of C22 *)
  Theorem sheet_roundtrip n rest :
    n <> [] -> lexp (qn n ++ 33 :: rest) = Some (n, rest).
  Proof.
    intro Hne. destruct (name_needs_quoting alpha alnum n) eqn:E.
    - apply quoted_roundtrip; exact E.
    - apply plain_roundtrip; assumption.
  Qed.
End Names.

(* the executable character classes satisfy the hypotheses *)
Theorem sheet_roundtrip_x n rest :
  n <> [] -> lex_sheet_prefix_x (quote_name_x n ++ 33 :: rest) = Some (n, rest).
Proof.
  apply sheet_roundtrip; try reflexivity.
  intros c Ha. unfold x_alpha in Ha. unfold x_ws.
  destruct (c <? 128) eqn:E.
  - unfold ascii_alpha, is_upper, is_lower in Ha. apply Z.ltb_lt in E.
    apply orb_true_iff in Ha as [Ha|Ha]; apply andb_true_iff in Ha as [H1 H2];
      apply Z.leb_le in H1, H2;
      repeat (apply orb_false_iff; split); try (apply Z.eqb_neq; lia);
      apply andb_false_iff; (left; apply Z.leb_gt; lia) || (right; apply Z.leb_gt; lia).
  - cbn [existsb] in Ha. apply Z.ltb_ge in E.
    repeat (apply orb_true_iff in Ha as [Ha|Ha]; [apply Z.eqb_eq in Ha; subst c; reflexivity|]).
    discriminate.
Qed.

(* names that used to break before fix F15 *)
Example sheet_formerly_broken :
  lex_sheet_prefix_x (quote_name_x [97; 38; 98] ++ [33; 65; 49]) = Some ([97; 38; 98], [65; 49]) /\
  lex_sheet_prefix_x (quote_name_x [46; 97] ++ [33; 65; 49]) = Some ([46; 97], [65; 49]) /\
  lex_sheet_prefix_x (quote_name_x [1635; 97] ++ [33; 65; 49]) = Some ([1635; 97], [65; 49]) /\
  quote_name_x [105; 116; 39; 115] = [39; 105; 116; 39; 39; 115; 39].
Proof. vm_compute. repeat split; reflexivity. Qed.
