(* Codec/RefRCProofs.v — an R1C1 reference printed by the engine (the stored form of every
   formula) is read back by the lexer with the same offsets and absolute flags, for every
   pair of i32 coordinates. *)
From IronCalc Require Import Base.Prelude Base.Dec Codec.RefA1 Codec.RefA1Proofs Codec.RefRC.

Arguments dec_of_nonneg : simpl never.

Definition no_digit_head (rest : text) : Prop :=
  match rest with c :: _ => is_digit c = false | [] => True end.

Lemma span_digits_app d rest :
  forallb is_digit d = true -> no_digit_head rest -> span_digits (d ++ rest) = (d, rest).
Proof.
  intros Hd Hr. induction d as [|c d IH].
  - cbn [app]. destruct rest as [|r0 rest]; [reflexivity|]. cbn [span_digits]. cbn in Hr. rewrite Hr. reflexivity.
  - cbn [forallb] in Hd. apply andb_true_iff in Hd as [Hc Hd].
    cbn [app span_digits]. rewrite Hc, IH by exact Hd. reflexivity.
Qed.

Definition i32 (z : Z) : Prop := -2147483648 <= z <= 2147483647.

Lemma consume_integer_dec z rest :
  i32 z -> no_digit_head rest -> consume_integer (dec_of_Z z ++ rest) = Some (z, rest).
Proof.
  intros Hz Hr. unfold dec_of_Z. destruct (z <? 0) eqn:E.
  - apply Z.ltb_lt in E. cbn [app consume_integer].
    pose proof (dec_of_nonneg_digits (- z) ltac:(lia)) as Hd. unfold all_digits in Hd.
    rewrite span_digits_app by assumption.
    change (is_digit 45) with false. cbn [orb negb Z.eqb Pos.eqb].
    destruct (dec_of_nonneg (- z)) eqn:Ed; [exfalso; revert Ed; apply dec_of_nonneg_nonempty|].
    rewrite <- Ed. rewrite dec_of_nonneg_val by lia.
    unfold i32 in Hz.
    replace (-2147483648 <=? - - z) with true by (symmetry; apply Z.leb_le; lia).
    replace (- - z <=? 2147483647) with true by (symmetry; apply Z.leb_le; lia).
    cbn [andb]. f_equal. f_equal. lia.
  - apply Z.ltb_ge in E.
    pose proof (dec_of_nonneg_digits z E) as Hd. unfold all_digits in Hd.
    pose proof (dec_of_nonneg_val z E) as Hv.
    destruct (dec_of_nonneg z) as [|c d] eqn:Ed; [exfalso; revert Ed; apply dec_of_nonneg_nonempty|].
    cbn [forallb] in Hd. apply andb_true_iff in Hd as [Hc Hd'].
    cbn [app consume_integer]. rewrite span_digits_app by assumption.
    rewrite Hc. cbn [orb negb].
    assert (Hc45 : (c =? 45) = false) by (apply digit_bounds in Hc; apply Z.eqb_neq; lia).
    rewrite Hc45, Hv. unfold i32 in Hz.
    replace (-2147483648 <=? z) with true by (symmetry; apply Z.leb_le; lia).
    replace (z <=? 2147483647) with true by (symmetry; apply Z.leb_le; lia).
    reflexivity.
Qed.

Lemma dec_head_not_bracket z : match dec_of_Z z with c :: _ => (c =? 91) = false | [] => False end.
Proof.
  unfold dec_of_Z. destruct (z <? 0) eqn:E; [reflexivity|]. apply Z.ltb_ge in E.
  pose proof (dec_of_nonneg_digits z E) as Hd. unfold all_digits in Hd.
  destruct (dec_of_nonneg z) as [|c d] eqn:Ed; [revert Ed; apply dec_of_nonneg_nonempty|].
  cbn [forallb] in Hd. apply andb_true_iff in Hd as [Hc _]. apply digit_bounds in Hc.
  apply Z.eqb_neq. lia.
Qed.

(* one printed coordinate, absolute or bracketed, followed by [rest] *)
Definition print_coord (abs : bool) (z : Z) : text :=
  if abs then dec_of_Z z else 91 :: dec_of_Z z ++ [93].

Lemma lex_coord_print abs z rest :
  i32 z -> no_digit_head rest ->
  lex_rc_coord (print_coord abs z ++ rest) = Some (abs, z, rest).
Proof.
  intros Hz Hr. unfold print_coord. destruct abs.
  - pose proof (dec_head_not_bracket z) as Hh.
    destruct (dec_of_Z z) as [|c d] eqn:Ed; [contradiction|].
    cbn [app lex_rc_coord]. rewrite Hh.
    change (c :: d ++ rest) with ((c :: d) ++ rest). rewrite <- Ed.
    rewrite consume_integer_dec by assumption. reflexivity.
  - cbn [app lex_rc_coord Z.eqb Pos.eqb]. rewrite <- app_assoc. cbn [app].
    rewrite consume_integer_dec; [| exact Hz | reflexivity].
    cbn [Z.eqb Pos.eqb]. reflexivity.
Qed.

Theorem rc_roundtrip (alnum : Z -> bool) row col abs_row abs_col rest :
  i32 row -> i32 col ->
  (match rest with c :: _ => is_digit c = false /\ alnum c = false | [] => True end) ->
  lex_reference_r1c1 alnum (print_rc row col abs_row abs_col ++ rest) =
  Some ({| p_row := row; p_col := col; p_abs_col := abs_col; p_abs_row := abs_row |}, rest).
Proof.
  intros Hr Hc Hrest.
  assert (Eq : print_rc row col abs_row abs_col ++ rest =
               82 :: print_coord abs_row row ++ 67 :: print_coord abs_col col ++ rest).
  { unfold print_rc, print_coord. destruct abs_row, abs_col; cbn [app]; rewrite <- ?app_assoc; cbn [app];
      rewrite <- ?app_assoc; reflexivity. }
  rewrite Eq. cbn [lex_reference_r1c1 Z.eqb Pos.eqb].
  rewrite lex_coord_print; [| exact Hr | reflexivity].
  cbn [Z.eqb Pos.eqb].
  rewrite lex_coord_print; [| exact Hc | destruct rest; [exact I | apply Hrest] ].
  destruct rest as [|c rest']; [reflexivity|]. destruct Hrest as [_ Ha]. rewrite Ha. reflexivity.
Qed.

Example rc_example :
  print_rc (-2) 3 false true = [82; 91; 45; 50; 93; 67; 51] /\
  lex_reference_r1c1 (fun _ => false) [82; 91; 45; 50; 93; 67; 51] =
    Some ({| p_row := -2; p_col := 3; p_abs_col := true; p_abs_row := false |}, []).
Proof. vm_compute. split; reflexivity. Qed.
