(* Codec/RefRC.v — mirrors [parse_reference_r1c1] (expressions/utils/mod.rs, used by
   quote_name and identifier validation), the lexer's [consume_reference_r1c1]
   (lexer/ranges.rs) restricted to the texts the printer emits, and the R1C1 arm of
   [stringify_reference]. *)
From IronCalc Require Import Base.Prelude Base.Dec Codec.RefA1.

(* longest prefix of ASCII digits *)
Fixpoint span_digits (s : text) : text * text :=
  match s with
  | c :: r => if is_digit c then let (d, r') := span_digits r in (c :: d, r') else ([], s)
  | [] => ([], [])
  end.

(* [s.parse::<i32>().unwrap_or(0)] on an optional '-' followed by digits *)
Definition i32_or_zero (neg : bool) (d : text) : Z :=
  match d with
  | [] => 0
  | _ => let v := dec_val 0 d in
         let v' := if neg then - v else v in
         if (-2147483648 <=? v') && (v' <=? 2147483647) then v' else 0
  end.

(* one coordinate: after 'R' (or 'C'); returns (absolute, value, rest) *)
Definition rc_coord (s : text) : option (bool * Z * text) :=
  match s with
  | c :: r =>
    if c =? 91 then                               (* '[' *)
      let (neg, r1) := match r with m :: r' => if m =? 45 then (true, r') else (false, r) | [] => (false, r) end in
      let (d, r2) := span_digits r1 in
      match r2 with
      | e :: r3 => if e =? 93 then Some (false, i32_or_zero neg d, r3) else None   (* ']' *)
      | [] => None
      end
    else let (d, r2) := span_digits s in Some (true, i32_or_zero false d, r2)
  | [] => Some (true, 0, [])
  end.

Definition parse_reference_r1c1 (s : text) : option pref :=
  if negb (forallb is_ascii s) then None else
  if Z.of_nat (length s) <? 4 then None else
  match s with
  | c0 :: r =>
    if c0 =? 82 then                              (* 'R' *)
      match rc_coord r with
      | Some (absr, row, c1 :: r') =>
        if c1 =? 67 then                          (* 'C' *)
          match rc_coord r' with
          | Some (absc, col, []) => Some {| p_row := row; p_col := col; p_abs_col := absc; p_abs_row := absr |}
          | _ => None
          end
        else None
      | _ => None
      end
    else None
  | [] => None
  end.

(* the R1C1 arm of stringify_reference: R{row} / R[{row}] then C{col} / C[{col}] *)
Definition print_rc (row col : Z) (abs_row abs_col : bool) : text :=
  (if abs_row then 82 :: dec_of_Z row else 82 :: 91 :: dec_of_Z row ++ [93]) ++
  (if abs_col then 67 :: dec_of_Z col else 67 :: 91 :: dec_of_Z col ++ [93]).

(* lexer: [consume_integer(first)] — first char then ASCII digits, parsed as i32
   (a leading '+' or '-' is accepted by Rust's integer parser) *)
Definition consume_integer (s : text) : option (Z * text) :=
  match s with
  | [] => None
  | c :: r =>
    let (d, r') := span_digits r in
    let digits := if is_digit c then c :: d else d in
    if negb (is_digit c || (c =? 45) || (c =? 43)) then None else
    match digits with
    | [] => None
    | _ => let v := dec_val 0 digits in
           let v' := if c =? 45 then - v else v in
           if (-2147483648 <=? v') && (v' <=? 2147483647) then Some (v', r') else None
    end
  end.

Definition lex_rc_coord (s : text) : option (bool * Z * text) :=
  match s with
  | c :: r =>
    if c =? 91 then
      match consume_integer r with
      | Some (v, e :: r') => if e =? 93 then Some (false, v, r') else None
      | _ => None
      end
    else match consume_integer s with
         | Some (v, r') => Some (true, v, r')
         | None => None
         end
  | [] => None
  end.

(* [consume_reference_r1c1]; [alnum] is the lexer's final "no alphanumeric follows" test *)
Definition lex_reference_r1c1 (alnum : Z -> bool) (s : text) : option (pref * text) :=
  match s with
  | c0 :: r =>
    if c0 =? 82 then
      match lex_rc_coord r with
      | Some (absr, row, c1 :: r') =>
        if c1 =? 67 then
          match lex_rc_coord r' with
          | Some (absc, col, rest) =>
            match rest with
            | c :: _ => if alnum c then None
                        else Some ({| p_row := row; p_col := col; p_abs_col := absc; p_abs_row := absr |}, rest)
            | [] => Some ({| p_row := row; p_col := col; p_abs_col := absc; p_abs_row := absr |}, rest)
            end
          | None => None
          end
        else None
      | _ => None
      end
    else None
  | [] => None
  end.
