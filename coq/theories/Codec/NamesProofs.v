(* Codec/NamesProofs.v — theorems about the name lookups (Codec/Names.v) over the generated tables.
   The domains (languages x functions, languages x errors) are finite and ARE the quantifier of
   the property: the statements over them are decided by [vm_compute] on a boolean check and lifted
   with [forallb_forall]. The statements with an arbitrary continuation [rest] are proved by
   induction from a prefix-freeness check of the tables. *)
From IronCalc Require Import Base.Prelude Generated.Tables_c23 Codec.Names.

(* ---------- lifting ---------- *)
Lemma seq_forallb (P : nat -> bool) n :
  forallb P (seq 0 n) = true -> forall i, (i < n)%nat -> P i = true.
Proof.
  intros H i Hi. rewrite forallb_forall in H. apply H. apply in_seq. lia.
Qed.

Lemma seq_forallb2 (P : nat -> nat -> bool) n m :
  forallb (fun i => forallb (P i) (seq 0 m)) (seq 0 n) = true ->
  forall i j, (i < n)%nat -> (j < m)%nat -> P i j = true.
Proof.
  intros H i j Hi Hj.
  apply (seq_forallb (P i) m); [|exact Hj].
  apply (seq_forallb (fun i => forallb (P i) (seq 0 m)) n H i Hi).
Qed.

Definition opt_is (o : option nat) (f : nat) : bool :=
  match o with Some g => Nat.eqb g f | None => false end.
Lemma opt_is_true o f : opt_is o f = true <-> o = Some f.
Proof.
  destruct o as [g|]; cbn [opt_is]; split; intro H; try discriminate.
  - apply Nat.eqb_eq in H. congruence.
  - inversion H. apply Nat.eqb_refl.
Qed.
Lemma opt_is_false o f : opt_is o f = false <-> o <> Some f.
Proof.
  split; intro H.
  - intro E. apply opt_is_true in E. congruence.
  - destruct (opt_is o f) eqn:E; [|reflexivity]. apply opt_is_true in E. contradiction.
Qed.

(* ---------- the findings: the classes the partial theorems exclude ---------- *)
(* (language code, Function variant) whose localized name is also the name of a function that
   comes earlier in the lookup: es XNPV (shadowed by RECEIVED, both "VNA.NO.PER") and
   fr TBILLEQ (shadowed by YIELDDISC, both "TAUX.ESCOMPTE.R") *)
Definition shadowed_list : list (text * text) :=
  [ ([101; 115], [88; 110; 112; 118]);                       (* "es", "Xnpv" *)
    ([102; 114], [84; 98; 105; 108; 108; 101; 113]) ].       (* "fr", "Tbilleq" *)

Definition known_shadowed (lang f : nat) : bool :=
  existsb (fun p => text_eqb (fst p) (nth lang languages []) && text_eqb (snd p) (nth f fn_variants []))
          shadowed_list.

(* ---------- functions ---------- *)
Definition fn_ok (lang f : nat) : bool := opt_is (lookup lang (localized lang f)) f.

(* the exact set of failures: a localized name parses back iff the function is not in the class *)
Lemma functions_exact_b :
  forallb (fun lang => forallb (fun f => Bool.eqb (fn_ok lang f) (negb (known_shadowed lang f))) (seq 0 n_fn))
          (seq 0 n_lang) = true.
Proof. vm_compute. reflexivity. Qed.

Lemma functions_exact lang f : (lang < n_lang)%nat -> (f < n_fn)%nat ->
  (lookup lang (localized lang f) = Some f <-> known_shadowed lang f = false).
Proof.
  intros Hl Hf.
  pose proof (seq_forallb2 (fun lang f => Bool.eqb (fn_ok lang f) (negb (known_shadowed lang f)))
                _ _ functions_exact_b lang f Hl Hf) as H.
  cbv beta in H. apply eqb_prop in H. unfold fn_ok in H.
  rewrite <- opt_is_true. rewrite H. destruct (known_shadowed lang f); cbn [negb]; split; congruence.
Qed.

Lemma functions_partial lang f : (lang < n_lang)%nat -> (f < n_fn)%nat ->
  known_shadowed lang f = false -> lookup lang (localized lang f) = Some f.
Proof. intros Hl Hf H. apply functions_exact; assumption. Qed.

(* the witness: the first entry of the class, found by name in the generated tables *)
Fixpoint index_of (k : text) (l : list text) : nat :=
  match l with [] => 0%nat | x :: tl => if text_eqb k x then 0%nat else S (index_of k tl) end.
Definition w_lang : nat := index_of [101; 115] languages.                 (* "es" *)
Definition w_fn : nat := index_of [88; 110; 112; 118] fn_variants.        (* Xnpv *)
Definition w_other : nat :=                                               (* the function its name parses to *)
  match lookup w_lang (localized w_lang w_fn) with Some g => g | None => 0%nat end.
Definition first_bad_fn : nat * nat := (w_lang, w_fn).

Lemma functions_refuted :
  exists lang f, (lang < n_lang)%nat /\ (f < n_fn)%nat /\
    known_shadowed lang f = true /\ lookup lang (localized lang f) <> Some f.
Proof.
  assert (Hr : (fst first_bad_fn <? n_lang)%nat && (snd first_bad_fn <? n_fn)%nat
               && known_shadowed (fst first_bad_fn) (snd first_bad_fn)
               && negb (fn_ok (fst first_bad_fn) (snd first_bad_fn)) = true) by (vm_compute; reflexivity).
  revert Hr. generalize (fst first_bad_fn), (snd first_bad_fn). intros lang f Hr.
  exists lang, f.
  apply andb_true_iff in Hr as [Hr H4]. apply andb_true_iff in Hr as [Hr H3].
  apply andb_true_iff in Hr as [H1 H2].
  apply Nat.ltb_lt in H1. apply Nat.ltb_lt in H2. apply negb_true_iff in H4.
  split; [exact H1|]. split; [exact H2|]. split; [exact H3|]. apply opt_is_false. exact H4.
Qed.

(* upper-casing: the character-level model agrees with Rust's to_uppercase on every name *)
Lemma upper_table_b :
  forallb (fun lang => forallb (fun f => text_eqb (upper (localized lang f)) (localized_upper lang f)) (seq 0 n_fn))
          (seq 0 n_lang) = true.
Proof. vm_compute. reflexivity. Qed.
Lemma upper_table lang f : (lang < n_lang)%nat -> (f < n_fn)%nat ->
  upper (localized lang f) = localized_upper lang f.
Proof.
  intros Hl Hf. apply text_eqb_eq.
  exact (seq_forallb2 (fun lang f => text_eqb (upper (localized lang f)) (localized_upper lang f)) _ _ upper_table_b lang f Hl Hf).
Qed.

(* ---------- no two functions share a name ---------- *)
Fixpoint distinct_b (l : list (bool * text)) : bool :=
  match l with
  | [] => true
  | p :: tl => forallb (fun q => fst p || fst q || negb (text_eqb (snd p) (snd q))) tl && distinct_b tl
  end.

Lemma distinct_b_sound l d : distinct_b l = true ->
  forall i j, (i < length l)%nat -> (j < length l)%nat ->
  fst (nth i l d) = false -> fst (nth j l d) = false ->
  snd (nth i l d) = snd (nth j l d) -> i = j.
Proof.
  induction l as [|p tl IH]; intros Hd i j Hi Hj Fi Fj E; cbn [length] in *; [lia|].
  cbn [distinct_b] in Hd. apply andb_true_iff in Hd as [Hh Ht].
  rewrite forallb_forall in Hh.
  destruct i as [|i], j as [|j]; cbn [nth] in *.
  - reflexivity.
  - exfalso. assert (Hin : In (nth j tl d) tl) by (apply nth_In; lia).
    specialize (Hh _ Hin). rewrite Fi, Fj, E, text_eqb_refl in Hh. discriminate Hh.
  - exfalso. assert (Hin : In (nth i tl d) tl) by (apply nth_In; lia).
    specialize (Hh _ Hin). rewrite Fi, Fj, <- E, text_eqb_refl in Hh. discriminate Hh.
  - f_equal. apply IH; try assumption; lia.
Qed.

Definition name_rows (lang : nat) : list (bool * text) :=
  map (fun f => (known_shadowed lang f, upper (localized lang f))) (seq 0 n_fn).

Lemma name_rows_nth lang f : (f < n_fn)%nat ->
  nth f (name_rows lang) (known_shadowed lang 0, upper (localized lang 0)) =
  (known_shadowed lang f, upper (localized lang f)).
Proof.
  intro Hf. unfold name_rows.
  rewrite (map_nth (fun f => (known_shadowed lang f, upper (localized lang f))) (seq 0 n_fn) 0%nat f).
  rewrite seq_nth by exact Hf. reflexivity.
Qed.

Lemma no_shared_b : forallb (fun lang => distinct_b (name_rows lang)) (seq 0 n_lang) = true.
Proof. vm_compute. reflexivity. Qed.

Lemma no_shared_name_partial lang f g : (lang < n_lang)%nat -> (f < n_fn)%nat -> (g < n_fn)%nat ->
  known_shadowed lang f = false -> known_shadowed lang g = false ->
  upper (localized lang f) = upper (localized lang g) -> f = g.
Proof.
  intros Hl Hf Hg Sf Sg E.
  pose proof (seq_forallb _ _ no_shared_b lang Hl) as Hd. cbv beta in Hd.
  assert (Hlen : length (name_rows lang) = n_fn) by (unfold name_rows; rewrite map_length, seq_length; reflexivity).
  apply (distinct_b_sound _ (known_shadowed lang 0, upper (localized lang 0)) Hd f g);
    rewrite ?Hlen; try assumption; rewrite !name_rows_nth by assumption; cbn [fst snd]; assumption.
Qed.

Definition first_shared : nat * (nat * nat) := (w_lang, (w_fn, w_other)).

Lemma no_shared_name_refuted :
  exists lang f g, (lang < n_lang)%nat /\ (f < n_fn)%nat /\ (g < n_fn)%nat /\ f <> g /\
    localized lang f = localized lang g.
Proof.
  assert (Hr : (fst first_shared <? n_lang)%nat && (fst (snd first_shared) <? n_fn)%nat
               && (snd (snd first_shared) <? n_fn)%nat
               && negb (Nat.eqb (fst (snd first_shared)) (snd (snd first_shared)))
               && text_eqb (localized (fst first_shared) (fst (snd first_shared)))
                           (localized (fst first_shared) (snd (snd first_shared))) = true) by (vm_compute; reflexivity).
  revert Hr. generalize (fst first_shared), (fst (snd first_shared)), (snd (snd first_shared)). intros lang f g Hr.
  exists lang, f, g.
  apply andb_true_iff in Hr as [Hr H5]. apply andb_true_iff in Hr as [Hr H4].
  apply andb_true_iff in Hr as [Hr H3]. apply andb_true_iff in Hr as [H1 H2].
  apply Nat.ltb_lt in H1. apply Nat.ltb_lt in H2. apply Nat.ltb_lt in H3.
  apply negb_true_iff in H4. apply Nat.eqb_neq in H4. apply text_eqb_eq in H5.
  split; [exact H1|]. split; [exact H2|]. split; [exact H3|]. split; [exact H4|exact H5].
Qed.

(* ---------- xlsx names (English tables = language 0) ---------- *)
Lemma en_is_first : nth 0 languages [] = [101; 110].
Proof. reflexivity. Qed.

Lemma xlsx_b :
  forallb (fun f => opt_is (resolve 0 (xlsx_name f)) f && opt_is (lookup 0 (strip_prefixes (xlsx_name f))) f)
          (seq 0 n_fn) = true.
Proof. vm_compute. reflexivity. Qed.

Lemma xlsx_resolve f : (f < n_fn)%nat -> resolve 0 (xlsx_name f) = Some f.
Proof.
  intro Hf. pose proof (seq_forallb _ _ xlsx_b f Hf) as H. cbv beta in H.
  apply andb_true_iff in H as [H _]. apply opt_is_true. exact H.
Qed.
Lemma xlsx_strip f : (f < n_fn)%nat -> lookup 0 (strip_prefixes (xlsx_name f)) = Some f.
Proof.
  intro Hf. pose proof (seq_forallb _ _ xlsx_b f Hf) as H. cbv beta in H.
  apply andb_true_iff in H as [_ H]. apply opt_is_true. exact H.
Qed.

(* ---------- the whole call path (lexer + parser) ---------- *)
Definition call_is (r : call_result) (f : nat) : bool :=
  match r with
  | CFn g => Nat.eqb g f
  | CLambda => Nat.eqb f fn_lambda
  | _ => false
  end.
Lemma call_is_true r f : call_is r f = true -> r = CFn f \/ (r = CLambda /\ f = fn_lambda).
Proof.
  destruct r; cbn [call_is]; intro H; try discriminate.
  - left. apply Nat.eqb_eq in H. congruence.
  - right. apply Nat.eqb_eq in H. split; [reflexivity|exact H].
Qed.

Lemma call_b :
  forallb (fun lang => forallb (fun f => known_shadowed lang f || call_is (call lang (localized lang f)) f) (seq 0 n_fn))
          (seq 0 n_lang) = true.
Proof. vm_compute. reflexivity. Qed.

Lemma call_partial lang f : (lang < n_lang)%nat -> (f < n_fn)%nat -> known_shadowed lang f = false ->
  call lang (localized lang f) = CFn f \/ (call lang (localized lang f) = CLambda /\ f = fn_lambda).
Proof.
  intros Hl Hf S.
  pose proof (seq_forallb2 (fun lang f => known_shadowed lang f || call_is (call lang (localized lang f)) f) _ _ call_b lang f Hl Hf) as H.
  cbv beta in H. rewrite S in H. apply call_is_true. exact H.
Qed.

Lemma call_xlsx_b : forallb (fun f => call_is (call 0 (xlsx_name f)) f) (seq 0 n_fn) = true.
Proof. vm_compute. reflexivity. Qed.
Lemma call_xlsx f : (f < n_fn)%nat ->
  call 0 (xlsx_name f) = CFn f \/ (call 0 (xlsx_name f) = CLambda /\ f = fn_lambda).
Proof. intro Hf. apply call_is_true. exact (seq_forallb _ _ call_xlsx_b f Hf). Qed.

(* ---------- errors: the lexer's prefix cascade, for an arbitrary continuation ---------- *)
Lemma strip_prefix_app n r : strip_prefix n (n ++ r) = Some r.
Proof.
  induction n as [|a n IH]; cbn [strip_prefix app]; [reflexivity|].
  rewrite Z.eqb_refl. exact IH.
Qed.

(* a name that is a prefix of  n ++ r  is a prefix of n, or n is a prefix of it *)
Lemma prefix_of_app a n r : is_prefix a (n ++ r) = true -> is_prefix a n = true \/ is_prefix n a = true.
Proof.
  unfold is_prefix. revert n. induction a as [|x a IH]; intros n H.
  - left. reflexivity.
  - destruct n as [|y n].
    + right. reflexivity.
    + cbn [app strip_prefix] in *. destruct (x =? y) eqn:Exy.
      * apply Z.eqb_eq in Exy. subst y. rewrite Z.eqb_refl. apply IH. exact H.
      * discriminate H.
Qed.

Fixpoint clash_free (tbl : list (nat * text)) : bool :=
  match tbl with
  | [] => true
  | p :: tl => forallb (fun q => negb (is_prefix (snd p) (snd q)) && negb (is_prefix (snd q) (snd p))) tl
               && clash_free tl
  end.

Lemma first_prefix_hit tbl : clash_free tbl = true ->
  forall e n r, In (e, n) tbl -> first_prefix tbl (n ++ r) = Some (e, r).
Proof.
  induction tbl as [|[e0 n0] tl IH]; intros Hc e n r Hin; [destruct Hin|].
  cbn [clash_free] in Hc. apply andb_true_iff in Hc as [Hh Ht].
  cbn [first_prefix]. destruct Hin as [Heq|Hin].
  - inversion Heq; subst. rewrite strip_prefix_app. reflexivity.
  - rewrite forallb_forall in Hh. specialize (Hh _ Hin). cbn [snd] in Hh.
    apply andb_true_iff in Hh as [H1 H2]. apply negb_true_iff in H1. apply negb_true_iff in H2.
    destruct (strip_prefix n0 (n ++ r)) as [x|] eqn:Es.
    + exfalso. assert (Hp : is_prefix n0 (n ++ r) = true) by (unfold is_prefix; rewrite Es; reflexivity).
      apply prefix_of_app in Hp as [Hp|Hp]; congruence.
    + apply IH; assumption.
Qed.

Definition starts_hash (s : text) : bool := match s with c :: _ => c =? 35 | [] => false end.

Definition err_lang_ok (lang : nat) : bool :=
  clash_free (err_tbl lang lex_cascade) &&
  forallb (fun e => starts_hash (error_name lang e) && existsb (Nat.eqb e) lex_cascade) (seq 0 n_err).

Lemma err_lang_ok_b : forallb err_lang_ok (seq 0 n_lang) = true.
Proof. vm_compute. reflexivity. Qed.

Lemma lex_error_roundtrip lang e rest : (lang < n_lang)%nat -> (e < n_err)%nat ->
  lex_error lang (error_name lang e ++ rest) = Some (e, rest).
Proof.
  intros Hl He. pose proof (seq_forallb _ _ err_lang_ok_b lang Hl) as H.
  unfold err_lang_ok in H. apply andb_true_iff in H as [Hc Hall].
  pose proof (seq_forallb _ _ Hall e He) as H. cbv beta in H.
  apply andb_true_iff in H as [Hh Hin].
  unfold lex_error. destruct (error_name lang e) as [|c n] eqn:En; [discriminate Hh|].
  cbn [starts_hash] in Hh. cbn [app]. rewrite Hh.
  change (c :: n ++ rest) with ((c :: n) ++ rest). rewrite <- En.
  apply first_prefix_hit; [exact Hc|].
  unfold err_tbl. apply in_map_iff. exists e. split; [reflexivity|].
  apply existsb_exists in Hin as [x [Hx Hex]]. apply Nat.eqb_eq in Hex. subst x. exact Hx.
Qed.

(* get_error_by_name on the upper-cased text (what set_user_input does with a typed value) *)
Lemma error_by_name_b :
  forallb (fun lang => forallb (fun e => opt_is (error_by_name lang (upper (error_name lang e))) e
                                         && opt_is (error_by_name lang (error_name lang e)) e) (seq 0 n_err))
          (seq 0 n_lang) = true.
Proof. vm_compute. reflexivity. Qed.
Lemma error_by_name_roundtrip lang e : (lang < n_lang)%nat -> (e < n_err)%nat ->
  error_by_name lang (upper (error_name lang e)) = Some e /\ error_by_name lang (error_name lang e) = Some e.
Proof.
  intros Hl He.
  pose proof (seq_forallb2 (fun lang e => opt_is (error_by_name lang (upper (error_name lang e))) e
                                         && opt_is (error_by_name lang (error_name lang e)) e) _ _ error_by_name_b lang e Hl He) as H.
  cbv beta in H. apply andb_true_iff in H as [H1 H2]. split; apply opt_is_true; assumption.
Qed.

(* ---------- errors: the xlsx (English) form ---------- *)
Lemma err_variants_order :
  err_variants = [ [82; 69; 70]; [78; 65; 77; 69]; [86; 65; 76; 85; 69]; [68; 73; 86]; [78; 65]; [78; 85; 77];
                   [69; 82; 82; 79; 82]; [78; 73; 77; 80; 76]; [83; 80; 73; 76; 76]; [67; 65; 76; 67];
                   [67; 73; 82; 67]; [78; 85; 76; 76] ].
Proof. reflexivity. Qed.

(* every error: Display (what stringify and the xlsx writer print) is read back by
   get_error_by_english_name — 12 of 12 since /repo 4a681a0 (Error::NIMPL displays as #N/IMPL!) *)
Lemma display_all_b :
  forallb (fun e => opt_is (english_lookup (display e)) e) (seq 0 n_err) = true.
Proof. vm_compute. reflexivity. Qed.

Lemma display_all e : (e < n_err)%nat -> english_lookup (display e) = Some e.
Proof. intro He. apply opt_is_true. exact (seq_forallb _ _ display_all_b e He). Qed.

(* the English language names (what the file format expects) all read back *)
Lemma english_names_b : forallb (fun e => opt_is (english_lookup (error_name 0 e)) e) (seq 0 n_err) = true.
Proof. vm_compute. reflexivity. Qed.
Lemma english_names e : (e < n_err)%nat -> english_lookup (error_name 0 e) = Some e.
Proof. intro He. apply opt_is_true. exact (seq_forallb _ _ english_names_b e He). Qed.

(* ---------- error literals printed inside formulas ---------- *)
Definition lit_ok (lang e : nat) : bool :=
  match lex_error lang (print_error_literal lang e) with
  | Some (e', []) => Nat.eqb e' e
  | _ => false
  end.
Lemma lit_ok_true lang e : lit_ok lang e = true <-> lex_error lang (print_error_literal lang e) = Some (e, []).
Proof.
  unfold lit_ok. destruct (lex_error lang (print_error_literal lang e)) as [[e' [|c r]]|]; split; intro H; try discriminate.
  - apply Nat.eqb_eq in H. subst. reflexivity.
  - inversion H. apply Nat.eqb_refl.
Qed.

(* the printed literal is read back by the same language exactly when the language's name of the
   error IS the Display form *)
Lemma literal_exact_b :
  forallb (fun lang => forallb (fun e => Bool.eqb (lit_ok lang e) (text_eqb (error_name lang e) (display e))) (seq 0 n_err))
          (seq 0 n_lang) = true.
Proof. vm_compute. reflexivity. Qed.

Lemma literal_exact lang e : (lang < n_lang)%nat -> (e < n_err)%nat ->
  (lex_error lang (print_error_literal lang e) = Some (e, []) <-> error_name lang e = display e).
Proof.
  intros Hl He.
  pose proof (seq_forallb2 (fun lang e => Bool.eqb (lit_ok lang e) (text_eqb (error_name lang e) (display e))) _ _ literal_exact_b lang e Hl He) as H.
  cbv beta in H. apply eqb_prop in H. rewrite <- lit_ok_true, H. apply text_eqb_eq.
Qed.

(* witness: Spanish (w_lang) and Error::REF: "#REF!" is not a Spanish error name *)
Lemma literal_refuted :
  (w_lang < n_lang)%nat /\ error_name w_lang E_REF = [35; 161; 82; 69; 70; 33] /\
  print_error_literal w_lang E_REF = [35; 82; 69; 70; 33] /\
  lex_error w_lang (print_error_literal w_lang E_REF) = None.
Proof. vm_compute. repeat split; try reflexivity; lia. Qed.

(* sizes, for non-vacuity *)
Lemma sizes : (0 < n_lang)%nat /\ (0 < n_fn)%nat /\ n_err = 12%nat
              /\ forallb (fun l => Nat.eqb (length l) n_fn) fn_names = true
              /\ length fn_names = n_lang /\ length err_names = n_lang
              /\ length xlsx_names = n_fn /\ forallb (fun l => Nat.eqb (length l) n_fn) lookup_tbls = true.
Proof. vm_compute. repeat split; try reflexivity; lia. Qed.
