(* Codec/Names.v — executable models of the name lookups of IronCalc, over the tables the
   translator regenerates from the compiled code (Generated/Tables_c23.v).

   Mirrors (as the code is):
   * base/src/functions/mod.rs  impl_function_lookup!  Functions::lookup: `key = name.to_uppercase()`,
     then a linear FIRST match `self.$field == key` in macro order            -> [lookup]
   * base/src/expressions/lexer/mod.rs  the identifier arm of next_token (identifier characters,
     the boolean names tested BEFORE the '(' test) and the parser's function-call arm
     (expressions/parser/mod.rs: LAMBDA, _xlfn.SINGLE, _xlfn.ANCHORARRAY, lookup after
     trim_start_matches("_xlfn._xlws."), then after trim_start_matches("_xlfn."), else a named
     function with "_xlpm." trimmed; `Boolean(` is the function TRUE/FALSE) -> [call]
   * Lexer::consume_error: starts_with cascade in the order
     ref name value div na num error nimpl spill calc null circ              -> [lex_error]
   * token.rs get_error_by_name (equality cascade: … calc circ null)          -> [error_by_name]
   * token.rs get_error_by_english_name (hard-coded English names)            -> [english_lookup]
   Functions are numbered in Function::into_iter order, errors in declaration order, languages
   in the order of [languages] ("en" first). No proofs in this file. *)
From IronCalc Require Import Base.Prelude Generated.Tables_c23.

(* ---------- generic helpers ---------- *)
Fixpoint strip_prefix (p s : text) : option text :=
  match p with
  | [] => Some s
  | a :: p' => match s with
               | [] => None
               | b :: s' => if a =? b then strip_prefix p' s' else None
               end
  end.

Definition is_prefix (p s : text) : bool :=
  match strip_prefix p s with Some _ => true | None => false end.

(* Rust: s.trim_start_matches(p) for a non-empty pattern p — strips p repeatedly. Every strip
   shortens the text, so [S (length s)] rounds are enough; the bound is never reached. *)
Fixpoint trim_start_fuel (fuel : nat) (p s : text) : text :=
  match fuel with
  | O => s
  | S k => match p with
           | [] => s
           | _ => match strip_prefix p s with
                  | Some r => trim_start_fuel k p r
                  | None => s
                  end
           end
  end.
Definition trim_start_matches (p s : text) : text := trim_start_fuel (S (length s)) p s.

Fixpoint assoc_z {A} (k : Z) (l : list (Z * A)) : option A :=
  match l with
  | [] => None
  | (k', v) :: tl => if k =? k' then Some v else assoc_z k tl
  end.

Fixpoint mem_z (k : Z) (l : list Z) : bool :=
  match l with [] => false | x :: tl => (k =? x) || mem_z k tl end.

Fixpoint mem_text (k : text) (l : list text) : bool :=
  match l with [] => false | x :: tl => text_eqb k x || mem_text k tl end.

(* ---------- the Rust standard library on the characters of the tables ---------- *)
(* char::to_uppercase: the generated map lists every known character whose upper case differs
   from itself (ASCII letters included); any other character is returned unchanged (exact for the
   characters of [char_known], compared with std on every generated string). *)
Definition upper_char (c : Z) : text :=
  match assoc_z c char_upper with Some t => t | None => [c] end.
(* str::to_uppercase maps character by character (no context rule applies to upper-casing) *)
Definition upper (s : text) : text := flat_map upper_char s.

Definition is_alpha (c : Z) : bool := mem_z c char_alpha.
Definition is_alnum (c : Z) : bool := mem_z c char_alnum.

(* ---------- tables ---------- *)
Definition n_lang : nat := length languages.
Definition n_err : nat := length err_variants.
Definition localized (lang f : nat) : text := nth f (nth lang fn_names []) [].
Definition localized_upper (lang f : nat) : text := nth f (nth lang fn_names_upper []) [].
Definition xlsx_name (f : nat) : text := nth f xlsx_names [].
Definition error_name (lang e : nat) : text := nth e (nth lang err_names []) [].
Definition display (e : nat) : text := nth e err_display [].
Definition true_name (lang : nat) : text := nth lang bool_true [].
Definition false_name (lang : nat) : text := nth lang bool_false [].

(* the macro-generated lookup of a language: (function returned, text of the field compared) *)
Definition lookup_tbl (lang : nat) : list (nat * text) := nth lang lookup_tbls [].

Fixpoint first_eq (tbl : list (nat * text)) (key : text) : option nat :=
  match tbl with
  | [] => None
  | (f, n) :: tl => if text_eqb n key then Some f else first_eq tl key
  end.

(* Functions::lookup *)
Definition lookup (lang : nat) (name : text) : option nat := first_eq (lookup_tbl lang) (upper name).

(* ---------- the parser's function-call arm ---------- *)
Definition t_xlfn : text := [95; 120; 108; 102; 110; 46].                       (* "_xlfn." *)
Definition t_xlws : text := [95; 120; 108; 102; 110; 46; 95; 120; 108; 119; 115; 46].   (* "_xlfn._xlws." *)
Definition t_xlpm : text := [95; 120; 108; 112; 109; 46].                       (* "_xlpm." *)
Definition t_LAMBDA : text := [76; 65; 77; 66; 68; 65].
Definition t_xlfn_LAMBDA : text := t_xlfn ++ t_LAMBDA.
Definition t_xlfn_SINGLE : text := t_xlfn ++ [83; 73; 78; 71; 76; 69].
Definition t_xlfn_ANCHORARRAY : text := t_xlfn ++ [65; 78; 67; 72; 79; 82; 65; 82; 82; 65; 89].

(* the user-facing name: the three prefixes trimmed in this order (display_name in the parser) *)
Definition strip_prefixes (name : text) : text :=
  trim_start_matches t_xlpm (trim_start_matches t_xlfn (trim_start_matches t_xlws name)).

(* the two lookups the parser tries *)
Definition resolve (lang : nat) (name : text) : option nat :=
  match lookup lang (trim_start_matches t_xlws name) with
  | Some f => Some f
  | None => lookup lang (trim_start_matches t_xlfn name)
  end.

(* Lexer::consume_identifier followed by '(' : first character alphabetic or '_', then
   alphanumeric, '_' or '.' *)
Definition ident_char (c : Z) : bool := is_alnum c || (c =? 95) || (c =? 46).
Definition is_ident (name : text) : bool :=
  match name with
  | [] => false
  | c :: _ => (is_alpha c || (c =? 95)) && forallb ident_char name
  end.

Inductive call_result : Type :=
| CNotIdent                 (* the text is not lexed as one identifier *)
| CFn (f : nat)             (* Node::FunctionKind *)
| CLambda                   (* parse_lambda *)
| CSingle                   (* implicit intersection *)
| CAnchor                   (* spill range operator *)
| CNamed (name : text).     (* Node::NamedFunctionKind *)

(* what lexer + parser make of `name(` in a language *)
Definition call (lang : nat) (name : text) : call_result :=
  if negb (is_ident name) then CNotIdent
  else if text_eqb (upper name) (true_name lang) then CFn fn_true
  else if text_eqb (upper name) (false_name lang) then CFn fn_false
  else if text_eqb name t_xlfn_LAMBDA || text_eqb (upper name) t_LAMBDA then CLambda
  else if text_eqb name t_xlfn_SINGLE then CSingle
  else if text_eqb name t_xlfn_ANCHORARRAY then CAnchor
  else match resolve lang name with
       | Some f => CFn f
       | None => CNamed (trim_start_matches t_xlpm name)
       end.

(* ---------- errors ---------- *)
(* Error ids in declaration order *)
Definition E_REF := 0%nat.  Definition E_NAME := 1%nat.  Definition E_VALUE := 2%nat.
Definition E_DIV := 3%nat.  Definition E_NA := 4%nat.    Definition E_NUM := 5%nat.
Definition E_ERROR := 6%nat. Definition E_NIMPL := 7%nat. Definition E_SPILL := 8%nat.
Definition E_CALC := 9%nat. Definition E_CIRC := 10%nat. Definition E_NULL := 11%nat.

(* the order of the starts_with cascade in Lexer::consume_error (null BEFORE circ) *)
Definition lex_cascade : list nat :=
  [E_REF; E_NAME; E_VALUE; E_DIV; E_NA; E_NUM; E_ERROR; E_NIMPL; E_SPILL; E_CALC; E_NULL; E_CIRC].
(* the order of the equality cascade in get_error_by_name and get_error_by_english_name *)
Definition eq_cascade : list nat :=
  [E_REF; E_NAME; E_VALUE; E_DIV; E_NA; E_NUM; E_ERROR; E_NIMPL; E_SPILL; E_CALC; E_CIRC; E_NULL].

Definition err_tbl (lang : nat) (order : list nat) : list (nat * text) :=
  map (fun e => (e, error_name lang e)) order.

Fixpoint first_prefix (tbl : list (nat * text)) (s : text) : option (nat * text) :=
  match tbl with
  | [] => None
  | (e, n) :: tl => match strip_prefix n s with
                    | Some r => Some (e, r)
                    | None => first_prefix tl s
                    end
  end.

(* consume_error is entered after a '#' was read; [s] is the text from that '#' on. The result is
   the error and the text left after it; None is the token Spill. *)
Definition lex_error (lang : nat) (s : text) : option (nat * text) :=
  match s with
  | c :: _ => if c =? 35 then first_prefix (err_tbl lang lex_cascade) s else None
  | [] => None
  end.

Definition error_by_name (lang : nat) (name : text) : option nat :=
  first_eq (err_tbl lang eq_cascade) name.

(* get_error_by_english_name: first error (cascade order) one of whose hard-coded texts is [name] *)
Fixpoint first_mem (order : list nat) (name : text) : option nat :=
  match order with
  | [] => None
  | e :: tl => if mem_text name (nth e err_english []) then Some e else first_mem tl name
  end.
Definition english_lookup (name : text) : option nat := first_mem eq_cascade name.

(* stringify.rs, arm ErrorKind(kind) => format!("{kind}"): an error literal inside a formula is
   printed with Display whatever the language of the printer *)
Definition print_error_literal (lang e : nat) : text := display e.
