(* Codec/XmlEscapeProofs.v — the escaping codec round trip: refuted in general, proved outside
   the class [collides] (unbounded: every text, by induction). *)
From IronCalc Require Import Base.Prelude Codec.XmlEscape.

(* ---------- the 28 control characters, by computation ---------- *)
Definition plain (c : Z) : bool :=
  negb (c =? 38) && negb (c =? 60) && negb (c =? 13) && xml_char_ok c.

Definition chunk_good (c : Z) : bool :=
  match hex4 c with
  | [h1; h2; h3; h4] =>
      is_hex h1 && is_hex h2 && is_hex h3 && is_hex h4 && (code4 h1 h2 h3 h4 =? c)
      && negb (is_surrogate c) && plain h1 && plain h2 && plain h3 && plain h4
  | _ => false
  end.

Lemma chunk_good_all : forallb (fun n => chunk_good (Z.of_nat n)) (seq 0 32) = true.
Proof. vm_compute. reflexivity. Qed.

Lemma ctrl_range c : needs_xlsx_escape c = true -> 0 <= c <= 31.
Proof.
  unfold needs_xlsx_escape. intro H.
  repeat (apply orb_true_iff in H; destruct H as [H|H]);
    repeat (apply andb_true_iff in H; destruct H as [? H]);
    repeat match goal with
           | X : (_ <=? _) = true |- _ => apply Z.leb_le in X
           | X : (_ =? _) = true |- _ => apply Z.eqb_eq in X
           end; lia.
Qed.

Lemma chunk_good_ctrl c : needs_xlsx_escape c = true -> chunk_good c = true.
Proof.
  intro H. apply ctrl_range in H.
  pose proof chunk_good_all as A. rewrite forallb_forall in A.
  specialize (A (Z.to_nat c)). rewrite Z2Nat.id in A by lia. apply A. apply in_seq. lia.
Qed.

Lemma hex_not_underscore h : is_hex h = true -> h <> 95.
Proof.
  unfold is_hex, is_digit. intros H E. subst h. vm_compute in H. discriminate H.
Qed.

(* ---------- decode on the three kinds of chunk ---------- *)
Lemma decode_ctrl c t : needs_xlsx_escape c = true -> decode (ctrl_chunk c ++ t) = c :: decode t.
Proof.
  intro H. pose proof (chunk_good_ctrl c H) as G. unfold chunk_good in G. unfold ctrl_chunk.
  destruct (hex4 c) as [|h1 [|h2 [|h3 [|h4 [|x y]]]]]; try discriminate G.
  repeat (apply andb_true_iff in G; destruct G as [G ?]).
  cbn [app decode].
  match goal with X : (code4 _ _ _ _ =? c) = true |- _ => apply Z.eqb_eq in X; rewrite X end.
  repeat match goal with X : is_hex _ = true |- _ => rewrite X; clear X end.
  match goal with X : negb (is_surrogate c) = true |- _ => rewrite X end.
  reflexivity.
Qed.

Lemma decode_5f t : decode (t_5f ++ t) = 95 :: decode t.
Proof. reflexivity. Qed.

(* a character that is not '_' at the head of [xesc r] is a literal character of r *)
Lemma xesc_head a t r : xesc r = a :: t -> a <> 95 ->
  exists r', r = a :: r' /\ xesc r' = t.
Proof.
  intros H Ha. destruct r as [|d r']; [discriminate H|].
  cbn [xesc] in H.
  destruct (needs_xlsx_escape d).
  - unfold ctrl_chunk in H. cbn [app] in H. inversion H. congruence.
  - destruct ((d =? 95) && starts_pattern (d :: r')).
    + unfold t_5f in H. cbn [app] in H. inversion H. congruence.
    + cbn [app] in H. inversion H. subst. exists r'. split; reflexivity.
Qed.

Lemma collides_tail c r : collides (c :: r) = false -> collides r = false.
Proof.
  cbn [collides]. destruct r as [|b [|h1 [|h2 [|h3 [|h4 [|d r']]]]]]; intro H; try exact H.
  apply orb_false_iff in H. exact (proj2 H).
Qed.

(* the step for a character written as itself: the decoder sees no pattern at it *)
Lemma decode_plain c r :
  needs_xlsx_escape c = false -> (c =? 95) && starts_pattern (c :: r) = false ->
  collides (c :: r) = false ->
  decode (c :: xesc r) = c :: decode (xesc r).
Proof.
  intros Hn Hp Hc.
  destruct (xesc r) as [|b [|h1 [|h2 [|h3 [|h4 [|u rest]]]]]] eqn:EX; try reflexivity.
  cbn [decode].
  destruct ((c =? 95) && (b =? 120) && (u =? 95) && is_hex h1 && is_hex h2 && is_hex h3 && is_hex h4
            && negb (is_surrogate (code4 h1 h2 h3 h4))) eqn:Cond; [|reflexivity].
  exfalso.
  repeat (apply andb_true_iff in Cond; destruct Cond as [Cond ?]).
  apply Z.eqb_eq in Cond.
  match goal with X : (b =? 120) = true |- _ => apply Z.eqb_eq in X end.
  match goal with X : (u =? 95) = true |- _ => apply Z.eqb_eq in X end.
  subst c b u.
  destruct (xesc_head _ _ _ EX) as [r1 [E1 X1]]; [lia|].
  destruct (xesc_head _ _ _ X1) as [r2 [E2 X2]]; [apply hex_not_underscore; assumption|].
  destruct (xesc_head _ _ _ X2) as [r3 [E3 X3]]; [apply hex_not_underscore; assumption|].
  destruct (xesc_head _ _ _ X3) as [r4 [E4 X4]]; [apply hex_not_underscore; assumption|].
  destruct (xesc_head _ _ _ X4) as [r5 [E5 X5]]; [apply hex_not_underscore; assumption|].
  subst r r1 r2 r3 r4.
  destruct r5 as [|d r6]; [discriminate X5|].
  (* the character after the literal _xHHHH *)
  cbn [collides] in Hc. apply orb_false_iff in Hc. destruct Hc as [Hc _].
  cbn [starts_pattern] in Hp.
  repeat match goal with X : is_hex _ = true |- _ => rewrite X in Hc, Hp; clear X end.
  match goal with X : negb (is_surrogate _) = true |- _ => rewrite X in Hc end.
  cbn in Hc, Hp. rewrite andb_true_r in Hp.
  cbn [xesc] in X5. rewrite Hc in X5.
  destruct (d =? 95) eqn:Ed; [discriminate Hp|].
  cbn [andb app] in X5. inversion X5. apply Z.eqb_neq in Ed. congruence.
Qed.

(* ---------- the `_xHHHH_` layer round trip ---------- *)
Theorem decode_xesc s : collides s = false -> decode (xesc s) = s.
Proof.
  induction s as [|c r IH]; intro Hc; [reflexivity|].
  pose proof (collides_tail _ _ Hc) as Hr.
  cbn [xesc].
  destruct (needs_xlsx_escape c) eqn:Hn.
  - rewrite decode_ctrl by exact Hn. rewrite IH by exact Hr. reflexivity.
  - destruct ((c =? 95) && starts_pattern (c :: r)) eqn:Hp.
    + rewrite decode_5f. rewrite IH by exact Hr.
      apply andb_true_iff in Hp. destruct Hp as [Hp _]. apply Z.eqb_eq in Hp. congruence.
    + cbn [app]. rewrite decode_plain by assumption. rewrite IH by exact Hr. reflexivity.
Qed.

(* ---------- the XML layer ---------- *)
Definition oapp (p : text) (o : outcome text) : outcome text :=
  match o with Ok t => Ok (p ++ t) | Err => Err | Panic => Panic end.

Lemma xun_plain c r : plain c = true -> xun None (c :: r) = ocons c (xun None r).
Proof.
  unfold plain. intro H. repeat (apply andb_true_iff in H; destruct H as [H ?]).
  apply negb_true_iff in H.
  repeat match goal with X : negb _ = true |- _ => apply negb_true_iff in X end.
  cbn [xun].
  repeat match goal with X : _ = false |- _ => rewrite X; clear X end.
  match goal with X : xml_char_ok c = true |- _ => rewrite X end. reflexivity.
Qed.

Lemma xun_ctrl c r : needs_xlsx_escape c = true ->
  xun None (ctrl_chunk c ++ r) = oapp (ctrl_chunk c) (xun None r).
Proof.
  intro H. pose proof (chunk_good_ctrl c H) as G. unfold chunk_good in G. unfold ctrl_chunk.
  destruct (hex4 c) as [|h1 [|h2 [|h3 [|h4 [|x y]]]]]; try discriminate G.
  repeat (apply andb_true_iff in G; destruct G as [G ?]).
  cbn [app].
  rewrite (xun_plain 95) by reflexivity. rewrite (xun_plain 120) by reflexivity.
  rewrite (xun_plain h1), (xun_plain h2), (xun_plain h3), (xun_plain h4) by assumption.
  rewrite (xun_plain 95) by reflexivity.
  destruct (xun None r); reflexivity.
Qed.

Lemma xun_5f r : xun None (t_5f ++ r) = oapp t_5f (xun None r).
Proof.
  unfold t_5f. cbn [app].
  rewrite (xun_plain 95), (xun_plain 120), (xun_plain 48), (xun_plain 48), (xun_plain 53),
          (xun_plain 70), (xun_plain 95) by reflexivity.
  destruct (xun None r); reflexivity.
Qed.

Lemma xun_lt r : xun None (t_lt ++ r) = ocons 60 (xun None r).   Proof. reflexivity. Qed.
Lemma xun_gt r : xun None (t_gt ++ r) = ocons 62 (xun None r).   Proof. reflexivity. Qed.
Lemma xun_quot r : xun None (t_quot ++ r) = ocons 34 (xun None r). Proof. reflexivity. Qed.
Lemma xun_apos r : xun None (t_apos ++ r) = ocons 39 (xun None r). Proof. reflexivity. Qed.
Lemma xun_amp r : xun None (t_amp ++ r) = ocons 38 (xun None r).  Proof. reflexivity. Qed.
Lemma xun_lf r : xun None (t_lf ++ r) = ocons 10 (xun None r).   Proof. reflexivity. Qed.
Lemma xun_cr r : xun None (t_cr ++ r) = ocons 13 (xun None r).   Proof. reflexivity. Qed.

(* the XML parser undoes exactly the entity layer of the writer *)
Theorem xml_unescape_escape s :
  forallb text_char_ok s = true -> xml_unescape (escape s) = Ok (xesc s).
Proof.
  unfold xml_unescape. induction s as [|c r IH]; intro Hok; [reflexivity|].
  cbn [forallb] in Hok. apply andb_true_iff in Hok. destruct Hok as [Hc Hr].
  specialize (IH Hr). cbn [escape xesc].
  destruct (needs_xlsx_escape c) eqn:Hn.
  - rewrite xun_ctrl by exact Hn. rewrite IH. reflexivity.
  - destruct ((c =? 95) && starts_pattern (c :: r)).
    + rewrite xun_5f, IH. reflexivity.
    + unfold escape_char.
      destruct (c =? 60) eqn:E1; [apply Z.eqb_eq in E1; subst c; rewrite xun_lt, IH; reflexivity|].
      destruct (c =? 62) eqn:E2; [apply Z.eqb_eq in E2; subst c; rewrite xun_gt, IH; reflexivity|].
      destruct (c =? 34) eqn:E3; [apply Z.eqb_eq in E3; subst c; rewrite xun_quot, IH; reflexivity|].
      destruct (c =? 39) eqn:E4; [apply Z.eqb_eq in E4; subst c; rewrite xun_apos, IH; reflexivity|].
      destruct (c =? 38) eqn:E5; [apply Z.eqb_eq in E5; subst c; rewrite xun_amp, IH; reflexivity|].
      destruct (c =? 10) eqn:E6; [apply Z.eqb_eq in E6; subst c; rewrite xun_lf, IH; reflexivity|].
      destruct (c =? 13) eqn:E7; [apply Z.eqb_eq in E7; subst c; rewrite xun_cr, IH; reflexivity|].
      cbn [app]. rewrite xun_plain.
      * rewrite IH. reflexivity.
      * unfold plain. rewrite E5, E1, E7. unfold text_char_ok in Hc. rewrite Hn in Hc.
        cbn [orb negb andb] in *. exact Hc.
Qed.

(* ---------- the codec round trip ---------- *)
Theorem roundtrip_partial s :
  forallb text_char_ok s = true -> collides s = false -> roundtrip s = Ok s.
Proof.
  intros Hok Hc. unfold roundtrip. rewrite xml_unescape_escape by exact Hok.
  rewrite decode_xesc by exact Hc. reflexivity.
Qed.

Definition witness : text := [95; 120; 48; 48; 52; 49; 1].              (* "_x0041\x01" *)

Lemma roundtrip_witness :
  escape witness = [95; 120; 48; 48; 52; 49; 95; 120; 48; 48; 48; 49; 95]     (* _x0041_x0001_ *)
  /\ roundtrip witness = Ok [65; 120; 48; 48; 48; 49; 95]                   (* "Ax0001_" *)
  /\ forallb text_char_ok witness = true /\ collides witness = true.
Proof. vm_compute. repeat split; reflexivity. Qed.

Theorem roundtrip_refuted :
  exists s, forallb text_char_ok s = true /\ roundtrip s <> Ok s.
Proof.
  exists witness. destruct roundtrip_witness as [_ [H [Hok _]]]. split; [exact Hok|].
  rewrite H. intro E. inversion E.
Qed.

(* a surrogate-valued look-alike is harmless: char::from_u32 rejects it and the '_' stays *)
Example surrogate_lookalike_roundtrips :
  collides [95; 120; 68; 56; 48; 48; 1] = false /\
  roundtrip [95; 120; 68; 56; 48; 48; 1] = Ok [95; 120; 68; 56; 48; 48; 1].
Proof. vm_compute. split; reflexivity. Qed.

(* U+FFFE / U+FFFF are written raw and are not XML characters: the reader rejects the file *)
Lemma noncharacter_rejected : roundtrip [65; 65534] = Err /\ roundtrip [65535] = Err.
Proof. vm_compute. split; reflexivity. Qed.
