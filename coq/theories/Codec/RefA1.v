(* Codec/RefA1.v — mirrors [parse_reference_a1] (expressions/utils/mod.rs) and the A1 arm
   of [stringify_reference] without displacement (expressions/parser/stringify.rs). *)
From IronCalc Require Import Base.Prelude Base.Dec Codec.Column.

Record pref := { p_row : Z; p_col : Z; p_abs_col : bool; p_abs_row : bool }.

(* state of the character loop: state 1 = reading the column, 2 = reading the row *)
Record a1st := { ac : bool; ar : bool; rw : text; cl : text; s2 : bool }.

Definition a1_step (st : a1st) (ch : Z) : option a1st :=
  if is_upper ch && negb (s2 st) then
    Some {| ac := ac st; ar := ar st; rw := rw st; cl := cl st ++ [ch]; s2 := s2 st |}
  else if is_digit ch then
    Some {| ac := ac st; ar := ar st; rw := rw st ++ [ch]; cl := cl st; s2 := true |}
  else if ch =? 36 then
    match cl st with
    | [] => Some {| ac := true; ar := ar st; rw := rw st; cl := cl st; s2 := s2 st |}
    | _ => if negb (s2 st)
           then Some {| ac := ac st; ar := true; rw := rw st; cl := cl st; s2 := true |}
           else None
    end
  else None.

Fixpoint a1_run (st : a1st) (s : text) : option a1st :=
  match s with
  | [] => Some st
  | ch :: r => match a1_step st ch with Some st' => a1_run st' r | None => None end
  end.

(* [row.parse::<i32>()] on a digit string followed by [is_valid_row]; the empty string and
   anything above i32::MAX fail to parse, anything outside [1, LAST_ROW] is invalid *)
Definition valid_row_str (r : text) : option Z :=
  match r with
  | [] => None
  | _ => let v := dec_val 0 r in if (1 <=? v) && (v <=? LAST_ROW) then Some v else None
  end.

Definition a1_init : a1st := {| ac := false; ar := false; rw := []; cl := []; s2 := false |}.

Definition parse_reference_a1 (s : text) : option pref :=
  match a1_run a1_init s with
  | None => None
  | Some st =>
    if is_valid_column (cl st) then
      match valid_row_str (rw st), column_to_number (cl st) with
      | Some r, Ok c => Some {| p_row := r; p_col := c; p_abs_col := ac st; p_abs_row := ar st |}
      | _, _ => None
      end
    else None
  end.

(* the A1 arm of stringify_reference for an absolute position (row, column) already
   resolved against the context, no sheet, no displacement; None = "#REF!" *)
Definition print_a1 (row col : Z) (abs_row abs_col : bool) : option text :=
  if row <? 1 then None else
  match number_to_column col with
  | None => None
  | Some letters =>
    Some ((if abs_col then [36] else []) ++ letters ++ (if abs_row then [36] else []) ++ dec_of_Z row)
  end.
