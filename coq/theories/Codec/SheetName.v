(* Codec/SheetName.v — mirrors [name_needs_quoting]/[quote_name] (expressions/utils/mod.rs)
   and the two lexer paths that read a sheet prefix back (lexer/mod.rs: the identifier
   path "name!" and [consume_single_quote_string] + '!').
   Character classes come from the Rust standard library ([char::is_alphabetic],
   [char::is_alphanumeric]); they are parameters here. *)
From IronCalc Require Import Base.Prelude Base.Dec Codec.Column Codec.RefA1 Codec.RefRC.

Fixpoint double_quotes (s : text) : text :=
  match s with
  | [] => []
  | c :: r => if c =? 39 then 39 :: 39 :: double_quotes r else c :: double_quotes r
  end.

Section Lexer.
  Variable alpha alnum ws : Z -> bool.

  Fixpoint skip_ws (s : text) : text :=
    match s with c :: r => if ws c then skip_ws r else s | [] => [] end.

  Definition ident_char (c : Z) : bool := alnum c || (c =? 95) || (c =? 46).
  Definition ident_start (c : Z) : bool := alpha c || (c =? 95).

  (* [name_needs_quoting] after fix F15: anything the lexer would not read back as an
     identifier is quoted (before the fix only ()'$,;-+{} space and a leading ASCII digit were) *)
  Definition name_needs_quoting (name : text) : bool :=
    existsb (fun c => negb (ident_char c)) name
    || match name with c :: _ => negb (ident_start c) | [] => false end
    || match parse_reference_a1 name with Some _ => true | None => false end
    || match parse_reference_r1c1 name with Some _ => true | None => false end.

  Definition quote_name (name : text) : text :=
    if name_needs_quoting name then 39 :: double_quotes name ++ [39] else name.

  Fixpoint span_ident (s : text) : text * text :=
    match s with
    | c :: r => if ident_char c then let (d, r') := span_ident r in (c :: d, r') else ([], s)
    | [] => ([], [])
    end.

  (* [consume_single_quote_string], called after the opening quote; returns the raw inner
     text (still escaped) and what follows the closing quote. None = unterminated. *)
  Fixpoint scan_quoted (s : text) : option (text * text) :=
    match s with
    | [] => None
    | c :: r =>
      if c =? 39 then
        match r with
        | c2 :: r' =>
          if c2 =? 39
          then match scan_quoted r' with Some (inner, rest) => Some (39 :: 39 :: inner, rest) | None => None end
          else Some ([], r)
        | [] => Some ([], r)
        end
      else match scan_quoted r with Some (inner, rest) => Some (c :: inner, rest) | None => None end
    end.

  (* [str::replace("''", "'")]: leftmost non-overlapping pairs *)
  Fixpoint undouble (s : text) : text :=
    match s with
    | c :: r =>
      if c =? 39 then
        match r with
        | c2 :: r' => if c2 =? 39 then 39 :: undouble r' else 39 :: undouble r
        | [] => [39]
        end
      else c :: undouble r
    | [] => []
    end.

  (* what the lexer reads as "sheet prefix" at the start of [s]: Some (name, rest after '!') *)
  Definition lex_sheet_prefix (s0 : text) : option (text * text) :=
    match skip_ws s0 with
    | c :: r =>
      if c =? 39 then
        match scan_quoted r with
        | Some (inner, after) =>
          match skip_ws after with
          | b :: rest => if b =? 33 then Some (undouble inner, rest) else None
          | [] => None
          end
        | None => None
        end
      else if ident_start c then
        let (name, r') := span_ident (c :: r) in
        match r' with b :: rest => if b =? 33 then Some (name, rest) else None | [] => None end
      else None
    | [] => None
    end.
End Lexer.

(* executable character classes: exact on ASCII, plus the explicit non-ASCII code points
   the generators use (checked against char::is_alphabetic / is_alphanumeric on every run) *)
Definition ascii_alpha (c : Z) : bool := is_upper c || is_lower c.
Definition x_alpha (c : Z) : bool :=
  if c <? 128 then ascii_alpha c else existsb (Z.eqb c) [233; 241; 20013; 946; 1046].
Definition x_alnum (c : Z) : bool :=
  if c <? 128 then ascii_alpha c || is_digit c
  else existsb (Z.eqb c) [233; 241; 20013; 946; 1046; 1635; 178; 189].

(* char::is_whitespace (Unicode White_Space) *)
Definition x_ws (c : Z) : bool :=
  ((9 <=? c) && (c <=? 13)) || (c =? 32) || (c =? 133) || (c =? 160) || (c =? 5760)
  || ((8192 <=? c) && (c <=? 8202)) || (c =? 8232) || (c =? 8233) || (c =? 8239) || (c =? 8287) || (c =? 12288).

Definition lex_sheet_prefix_x := lex_sheet_prefix x_alpha x_alnum x_ws.
Definition quote_name_x := quote_name x_alpha x_alnum.
Definition lex_reference_r1c1_x := lex_reference_r1c1 x_alnum.
