(* Codec/ColumnProofs.v — the column-letter codec is a bijection on [1, 16384];
   the i32 wrap makes [column_to_number] non-injective on long strings. *)
From IronCalc Require Import Base.Prelude Codec.Column.


Lemma wrap32_small x : -2147483648 <= x <= 2147483647 -> wrap32 x = x.
Proof. intro H. unfold wrap32. rewrite Z.mod_small by lia. lia. Qed.

Lemma col_val_app acc a b : col_val acc (a ++ b) = col_val (col_val acc a) b.
Proof. revert acc; induction a as [|c a IH]; intro acc; cbn [app col_val]; [reflexivity | apply IH]. Qed.

Lemma upper_bounds c : is_upper c = true -> 65 <= c <= 90.
Proof. unfold is_upper. intro H. apply andb_true_iff in H as [H1 H2]. apply Z.leb_le in H1, H2. lia. Qed.

Lemma col_val_mono acc s : 0 <= acc -> forallb is_upper s = true -> acc <= col_val acc s.
Proof.
  revert acc; induction s as [|c s IH]; intros acc Ha Hs; cbn [col_val]; [lia|].
  cbn [forallb] in Hs. apply andb_true_iff in Hs as [Hc Hs]. apply upper_bounds in Hc.
  specialize (IH (acc * 26 + (c - 64)) ltac:(lia) Hs). lia.
Qed.

(* if the unbounded value is small, the wrapping loop computes it *)
Lemma col_loop_small acc s :
  0 <= acc -> forallb is_upper s = true -> col_val acc s <= 2147483647 ->
  col_loop acc s = Some (col_val acc s).
Proof.
  revert acc; induction s as [|c s IH]; intros acc Ha Hs Hv; cbn [col_loop col_val]; [reflexivity|].
  cbn [forallb] in Hs. apply andb_true_iff in Hs as [Hc Hs]. rewrite Hc.
  pose proof (upper_bounds _ Hc) as Hb. cbn [col_val] in Hv.
  pose proof (col_val_mono (acc * 26 + (c - 64)) s ltac:(lia) Hs) as Hm.
  rewrite (wrap32_small (acc * 26)) by lia.
  rewrite wrap32_small by lia.
  apply IH; [lia | exact Hs | exact Hv].
Qed.

Lemma n2c_upper f i : forallb is_upper (n2c_fuel f i) = true.
Proof.
  revert i; induction f as [|f IH]; intro i; cbn [n2c_fuel]; [reflexivity|].
  destruct (0 <? i) eqn:E; [|reflexivity].
  rewrite forallb_app, IH. cbn [forallb andb]. rewrite andb_true_r.
  apply Z.ltb_lt in E. pose proof (Z.mod_pos_bound (i - 1) 26 ltac:(lia)).
  unfold is_upper. apply andb_true_iff; split; apply Z.leb_le; lia.
Qed.

Lemma n2c_val f i : 0 <= i -> i < 26 ^ Z.of_nat f -> col_val 0 (n2c_fuel f i) = i.
Proof.
  revert i; induction f as [|f IH]; intros i H0 Hlt.
  - change (Z.of_nat 0) with 0 in Hlt. rewrite Z.pow_0_r in Hlt. cbn [n2c_fuel col_val]. lia.
  - cbn [n2c_fuel]. destruct (0 <? i) eqn:E.
    + apply Z.ltb_lt in E. rewrite col_val_app. cbn [col_val].
      rewrite IH.
      * pose proof (Z.div_mod (i - 1) 26 ltac:(lia)). lia.
      * apply Z.div_pos; lia.
      * rewrite Nat2Z.inj_succ, Z.pow_succ_r in Hlt by lia.
        apply Z.div_lt_upper_bound; lia.
    + apply Z.ltb_ge in E. cbn [col_val]. lia.
Qed.

Lemma n2c_length f i : Z.of_nat (length (n2c_fuel f i)) <= Z.of_nat f.
Proof.
  revert i; induction f as [|f IH]; intro i; cbn [n2c_fuel]; [cbn; lia|].
  destruct (0 <? i); [|cbn [length]; lia].
  rewrite app_length. cbn [length]. specialize (IH ((i - 1) / 26)). lia.
Qed.

(* i < 26^f needs at most f letters, whatever the fuel *)
Lemma n2c_length_tight f g i : 0 <= i -> i < 26 ^ Z.of_nat f -> Z.of_nat (length (n2c_fuel g i)) <= Z.of_nat f.
Proof.
  revert g i; induction f as [|f IH]; intros g i H0 Hlt.
  - change (Z.of_nat 0) with 0 in Hlt. rewrite Z.pow_0_r in Hlt.
    destruct g; cbn [n2c_fuel]; [cbn; lia|].
    replace (0 <? i) with false by (symmetry; apply Z.ltb_ge; lia). cbn; lia.
  - destruct g as [|g]; cbn [n2c_fuel]; [cbn [length]; lia|].
    destruct (0 <? i) eqn:E; [|cbn [length]; lia].
    apply Z.ltb_lt in E. rewrite app_length. cbn [length].
    rewrite Nat2Z.inj_succ, Z.pow_succ_r in Hlt by lia.
    specialize (IH g ((i - 1) / 26) ltac:(apply Z.div_pos; lia) ltac:(apply Z.div_lt_upper_bound; lia)).
    lia.
Qed.

Lemma n2c_nonempty f i : 0 < i -> n2c_fuel (S f) i <> [].
Proof.
  intro H. cbn [n2c_fuel]. apply Z.ltb_lt in H. rewrite H.
  destruct (n2c_fuel f ((i - 1) / 26)); discriminate.
Qed.

Lemma valid_range n : is_valid_column_number n = true <-> 1 <= n <= 16384.
Proof.
  unfold is_valid_column_number, LAST_COLUMN. rewrite andb_true_iff, !Z.leb_le. reflexivity.
Qed.

Lemma upper_ascii s : forallb is_upper s = true -> forallb is_ascii s = true.
Proof.
  induction s as [|c s IH]; cbn [forallb]; [reflexivity|]. intro H.
  apply andb_true_iff in H as [Hc Hs]. rewrite (IH Hs), andb_true_r.
  apply upper_bounds in Hc. unfold is_ascii. apply andb_true_iff; split; [apply Z.leb_le | apply Z.ltb_lt]; lia.
Qed.

(* --- letters of a number read back as the number, on the whole grid --- *)
Theorem col_roundtrip n :
  1 <= n <= 16384 ->
  exists s, number_to_column n = Some s /\ column_to_number s = Ok n.
Proof.
  intro Hn. unfold number_to_column.
  assert (Hv : is_valid_column_number n = true) by (apply valid_range; exact Hn).
  rewrite Hv. eexists; split; [reflexivity|].
  assert (Hval : col_val 0 (n2c_fuel 4 n) = n) by (apply n2c_val; [lia | change (26 ^ Z.of_nat 4) with 456976; lia]).
  pose proof (n2c_upper 4 n) as Hup.
  unfold column_to_number.
  destruct (n2c_fuel 4 n) as [|c r] eqn:Es.
  - exfalso. revert Es. apply n2c_nonempty. lia.
  - rewrite (upper_ascii _ Hup). cbn [negb].
    pose proof (n2c_length_tight 3 4 n ltac:(lia) ltac:(change (26 ^ Z.of_nat 3) with 17576; lia)) as Hlen.
    rewrite Es in Hlen.
    replace (3 <? Z.of_nat (length (c :: r))) with false by (symmetry; apply Z.ltb_ge; lia).
    rewrite col_loop_small; [| lia | exact Hup | lia ].
    rewrite Hval, Hv. reflexivity.
Qed.

(* --- injectivity of the letters on strings the grid can name --- *)

(* bijective base 26: reading and then writing gives back the letters *)
Lemma n2c_col_val f s :
  forallb is_upper s = true -> (length s <= f)%nat -> n2c_fuel f (col_val 0 s) = s.
Proof.
  revert f. induction s as [|c s IH] using rev_ind; intros f Hs Hl.
  - cbn [col_val]. destruct f; reflexivity.
  - rewrite forallb_app in Hs. apply andb_true_iff in Hs as [Hs Hc].
    cbn [forallb] in Hc. rewrite andb_true_r in Hc. pose proof (upper_bounds _ Hc) as Hb.
    rewrite app_length in Hl. cbn [length] in Hl.
    destruct f as [|f]; [lia|].
    rewrite col_val_app. cbn [col_val n2c_fuel].
    pose proof (col_val_mono 0 s ltac:(lia) Hs) as Hm.
    replace (0 <? col_val 0 s * 26 + (c - 64)) with true by (symmetry; apply Z.ltb_lt; lia).
    replace ((col_val 0 s * 26 + (c - 64) - 1) / 26) with (col_val 0 s)
      by (apply Z.div_unique with (r := c - 65); lia).
    replace ((col_val 0 s * 26 + (c - 64) - 1) mod 26) with (c - 65)
      by (apply Z.mod_unique with (q := col_val 0 s); lia).
    rewrite IH by (try exact Hs; lia).
    f_equal. f_equal. lia.
Qed.

Lemma col_loop_upper acc s n : col_loop acc s = Some n -> forallb is_upper s = true.
Proof.
  revert acc; induction s as [|c s IH]; intros acc H; cbn [forallb]; [reflexivity|].
  cbn [col_loop] in H. destruct (is_upper c) eqn:E; [|discriminate].
  cbn [andb]. eapply IH; exact H.
Qed.

Lemma col_val_bound acc s :
  0 <= acc -> forallb is_upper s = true ->
  col_val acc s <= (acc + 2) * 26 ^ Z.of_nat (length s) - 2.
Proof.
  revert acc; induction s as [|c s IH]; intros acc Ha Hs.
  - cbn [col_val length]. change (Z.of_nat 0) with 0. rewrite Z.pow_0_r. lia.
  - cbn [forallb] in Hs. apply andb_true_iff in Hs as [Hc Hs]. apply upper_bounds in Hc.
    cbn [col_val length]. rewrite Nat2Z.inj_succ, Z.pow_succ_r by lia.
    specialize (IH (acc * 26 + (c - 64)) ltac:(lia) Hs).
    assert (0 < 26 ^ Z.of_nat (length s)) by (apply Z.pow_pos_nonneg; lia).
    nia.
Qed.

Theorem col_injective s n :
  column_to_number s = Ok n -> number_to_column n = Some s.
Proof.
  intros H. unfold column_to_number in H.
  destruct s as [|c0 r0] eqn:Es; [discriminate|]. rewrite <- Es in *. clear Es c0 r0.
  destruct (negb (forallb is_ascii s)); [discriminate|].
  destruct (3 <? Z.of_nat (length s)) eqn:El3; [discriminate|]. apply Z.ltb_ge in El3.
  destruct (col_loop 0 s) as [m|] eqn:El; [|discriminate].
  destruct (is_valid_column_number m) eqn:Ev; [|discriminate].
  assert (Hmn : m = n) by congruence. subst m. clear H.
  pose proof (col_loop_upper _ _ _ El) as Hup.
  assert (Hb : col_val 0 s <= 2147483647).
  { pose proof (col_val_bound 0 s ltac:(lia) Hup) as Hbd.
    assert (26 ^ Z.of_nat (length s) <= 26 ^ 3) by (apply Z.pow_le_mono_r; lia).
    change (26 ^ 3) with 17576 in *. lia. }
  rewrite col_loop_small in El by (try exact Hup; lia).
  assert (Hv : col_val 0 s = n) by congruence.
  unfold number_to_column. rewrite Ev. f_equal. rewrite <- Hv. apply n2c_col_val; [assumption | lia].
Qed.

(* with the length guard the i32 accumulator never overflows: the overflow-checked build
   cannot panic and the release build cannot wrap (before fix F16 the seven-letter string
   MWLQKWW = 2^32 + 1 was read as column 1) *)
Definition old_wrap_witness : text := [77; 87; 76; 81; 75; 87; 87].
Lemma col_long_rejected : column_to_number old_wrap_witness = Err.
Proof. vm_compute. reflexivity. Qed.

(* what an overflow-checked build does on strings the lexer may pass *)
Lemma no_overflow_short s : (length s <= 6)%nat -> col_overflows 0 s = false.  (* a fortiori for <= 3 *)
Proof.
  assert (G : forall s acc, 0 <= acc -> (acc + 2) * 26 ^ Z.of_nat (length s) - 2 <= 2147483647 ->
              col_overflows acc s = false).
  { clear s. induction s as [|c s IH]; intros acc Ha Hb; cbn [col_overflows]; [reflexivity|].
    destruct (is_upper c) eqn:Ec; [|reflexivity]. apply upper_bounds in Ec.
    cbn [length] in Hb. rewrite Nat2Z.inj_succ, Z.pow_succ_r in Hb by lia.
    assert (0 < 26 ^ Z.of_nat (length s)) by (apply Z.pow_pos_nonneg; lia).
    replace (acc * 26 + (c - 64) <=? 2147483647) with true by (symmetry; apply Z.leb_le; nia).
    apply IH; [lia | nia]. }
  intro Hl. apply G; [lia|].
  assert (26 ^ Z.of_nat (length s) <= 26 ^ 6) by (apply Z.pow_le_mono_r; lia).
  change (26 ^ 6) with 308915776 in *. lia.
Qed.
