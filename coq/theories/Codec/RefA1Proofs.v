(* Codec/RefA1Proofs.v — an A1 reference printed by the engine is parsed back to the same
   row, column and absolute flags, for every cell of the grid. *)
From IronCalc Require Import Base.Prelude Base.Dec Codec.Column Codec.ColumnProofs Codec.RefA1.

Arguments n2c_fuel : simpl never.
Arguments dec_of_nonneg : simpl never.

Lemma upper_not_digit c : is_upper c = true -> is_digit c = false.
Proof.
  intro H. apply upper_bounds in H. unfold is_digit.
  apply andb_false_iff. right. apply Z.leb_gt. lia.
Qed.

Lemma digit_bounds c : is_digit c = true -> 48 <= c <= 57.
Proof. unfold is_digit. intro H. apply andb_true_iff in H as [H1 H2]. apply Z.leb_le in H1, H2. lia. Qed.

Lemma digit_not_upper c : is_digit c = true -> is_upper c = false.
Proof.
  intro H. apply digit_bounds in H. unfold is_upper.
  apply andb_false_iff. left. apply Z.leb_gt. lia.
Qed.

(* letters extend the column while the loop is in state 1 *)
Lemma a1_run_letters l : forall a b r c rest,
  forallb is_upper l = true ->
  a1_run {| ac := a; ar := b; rw := r; cl := c; s2 := false |} (l ++ rest) =
  a1_run {| ac := a; ar := b; rw := r; cl := c ++ l; s2 := false |} rest.
Proof.
  induction l as [|ch l IH]; intros a b r c rest Hl.
  - rewrite app_nil_r. reflexivity.
  - cbn [forallb] in Hl. apply andb_true_iff in Hl as [Hc Hl].
    cbn [app a1_run]. unfold a1_step. cbn [s2 ac ar rw cl negb]. rewrite Hc. cbn [andb].
    rewrite IH by exact Hl. rewrite <- app_assoc. reflexivity.
Qed.

(* digits extend the row and move to state 2 *)
Lemma a1_run_digits d : forall a b r c st2,
  forallb is_digit d = true -> d <> [] ->
  a1_run {| ac := a; ar := b; rw := r; cl := c; s2 := st2 |} d =
  Some {| ac := a; ar := b; rw := r ++ d; cl := c; s2 := true |}.
Proof.
  induction d as [|ch d IH]; intros a b r c st2 Hd Hne; [congruence|].
  cbn [forallb] in Hd. apply andb_true_iff in Hd as [Hc Hd].
  cbn [a1_run]. unfold a1_step. cbn [s2 ac ar rw cl].
  rewrite (digit_not_upper _ Hc). cbn [andb]. rewrite Hc.
  destruct d as [|ch2 d2].
  - cbn [a1_run]. reflexivity.
  - rewrite IH by (try exact Hd; discriminate). rewrite <- app_assoc. reflexivity.
Qed.

Lemma valid_row_of_dec row : 1 <= row <= LAST_ROW -> valid_row_str (dec_of_nonneg row) = Some row.
Proof.
  intro H. unfold valid_row_str.
  destruct (dec_of_nonneg row) eqn:E; [exfalso; revert E; apply dec_of_nonneg_nonempty|].
  rewrite <- E. rewrite dec_of_nonneg_val by lia.
  replace (1 <=? row) with true by (symmetry; apply Z.leb_le; lia).
  replace (row <=? LAST_ROW) with true by (symmetry; apply Z.leb_le; lia).
  reflexivity.
Qed.

Lemma letters_valid col :
  1 <= col <= 16384 ->
  is_valid_column (n2c_fuel 4 col) = true /\ column_to_number (n2c_fuel 4 col) = Ok col.
Proof.
  intro H. destruct (col_roundtrip col H) as [s [Hs Hc]].
  assert (Es : s = n2c_fuel 4 col).
  { unfold number_to_column in Hs. destruct (is_valid_column_number col); congruence. }
  subst s. clear Hs. split; [|exact Hc].
  unfold is_valid_column. rewrite Hc.
  pose proof (n2c_length_tight 3 4 col ltac:(lia) ltac:(change (26 ^ Z.of_nat 3) with 17576; lia)) as Hl.
  replace (3 <? Z.of_nat (length (n2c_fuel 4 col))) with false by (symmetry; apply Z.ltb_ge; lia).
  apply valid_range. exact H.
Qed.

Theorem a1_roundtrip row col abs_row abs_col :
  1 <= row <= LAST_ROW -> 1 <= col <= LAST_COLUMN ->
  exists t, print_a1 row col abs_row abs_col = Some t /\
            parse_reference_a1 t =
            Some {| p_row := row; p_col := col; p_abs_col := abs_col; p_abs_row := abs_row |}.
Proof.
  intros Hr Hc. unfold LAST_COLUMN in Hc.
  unfold print_a1.
  replace (row <? 1) with false by (symmetry; apply Z.ltb_ge; lia).
  unfold number_to_column.
  replace (is_valid_column_number col) with true by (symmetry; apply valid_range; exact Hc).
  eexists; split; [reflexivity|].
  unfold dec_of_Z. replace (row <? 0) with false by (symmetry; apply Z.ltb_ge; lia).
  pose proof (n2c_upper 4 col) as Hup.
  assert (Hne : n2c_fuel 4 col <> []) by (apply n2c_nonempty; lia).
  pose proof (dec_of_nonneg_digits row ltac:(lia)) as Hdig. unfold all_digits in Hdig.
  pose proof (dec_of_nonneg_nonempty row) as Hdne.
  destruct (letters_valid col Hc) as [Hvc Hcn].
  pose proof (valid_row_of_dec row Hr) as Hvr.
  unfold parse_reference_a1, a1_init.
  destruct abs_col, abs_row; cbn [app].
  - (* $A$1 *)
    cbn [a1_run]. unfold a1_step at 1. cbn [s2 ac ar rw cl negb andb is_upper is_digit Z.leb Z.eqb Z.compare Pos.compare Pos.compare_cont Pos.eqb].
    rewrite a1_run_letters by exact Hup. cbn [app a1_run].
    destruct (n2c_fuel 4 col) as [|l0 ls] eqn:El; [congruence|].
    unfold a1_step at 1. cbn [s2 ac ar rw cl negb andb is_upper is_digit Z.leb Z.eqb Z.compare Pos.compare Pos.compare_cont Pos.eqb].
    rewrite a1_run_digits by assumption. cbn [cl rw ac ar app].
    rewrite Hvc, Hvr, Hcn. reflexivity.
  - (* $A1 *)
    cbn [a1_run]. unfold a1_step at 1. cbn [s2 ac ar rw cl negb andb is_upper is_digit Z.leb Z.eqb Z.compare Pos.compare Pos.compare_cont Pos.eqb].
    rewrite a1_run_letters by exact Hup. cbn [app].
    rewrite a1_run_digits by assumption. cbn [cl rw ac ar app].
    rewrite Hvc, Hvr, Hcn. reflexivity.
  - (* A$1 *)
    rewrite a1_run_letters by exact Hup. cbn [app a1_run].
    destruct (n2c_fuel 4 col) as [|l0 ls] eqn:El; [congruence|].
    unfold a1_step at 1. cbn [s2 ac ar rw cl negb andb is_upper is_digit Z.leb Z.eqb Z.compare Pos.compare Pos.compare_cont Pos.eqb].
    rewrite a1_run_digits by assumption. cbn [cl rw ac ar app].
    rewrite Hvc, Hvr, Hcn. reflexivity.
  - (* A1 *)
    rewrite a1_run_letters by exact Hup. cbn [app].
    rewrite a1_run_digits by assumption. cbn [cl rw ac ar app].
    rewrite Hvc, Hvr, Hcn. reflexivity.
Qed.

(* off the grid the printer says #REF! *)
Theorem a1_offgrid row col abs_row abs_col :
  row < 1 \/ col < 1 \/ LAST_COLUMN < col -> print_a1 row col abs_row abs_col = None.
Proof.
  intro H. unfold print_a1, LAST_COLUMN in *.
  destruct (row <? 1) eqn:E; [reflexivity|]. apply Z.ltb_ge in E.
  unfold number_to_column.
  replace (is_valid_column_number col) with false; [reflexivity|].
  symmetry. destruct (is_valid_column_number col) eqn:Ev; [|reflexivity].
  apply valid_range in Ev. lia.
Qed.

Example a1_example :
  print_a1 12 28 true false = Some [65; 66; 36; 49; 50] /\
  parse_reference_a1 [65; 66; 36; 49; 50] = Some {| p_row := 12; p_col := 28; p_abs_col := false; p_abs_row := true |}.
Proof. vm_compute. split; reflexivity. Qed.
