(* Codec/Column.v — mirrors base/src/expressions/utils/mod.rs:
   [column_to_number], [number_to_column], [is_valid_column_number], [is_valid_column].
   The accumulator of [column_to_number] is an i32; release builds wrap, overflow-checked
   builds panic. Both are written into the model ([wrap32], [col_overflows]); since the
   length guard (fix F16) neither can happen any more, which is what ColumnProofs shows. *)
From IronCalc Require Import Base.Prelude.

Definition wrap32 (x : Z) : Z := (x + 2147483648) mod 4294967296 - 2147483648.

Definition is_valid_column_number (n : Z) : bool := (1 <=? n) && (n <=? LAST_COLUMN).

(* the [for character in column.chars()] loop: None = Err (a character outside A-Z) *)
Fixpoint col_loop (acc : Z) (s : text) : option Z :=
  match s with
  | [] => Some acc
  | c :: r => if is_upper c then col_loop (wrap32 (wrap32 (acc * 26) + (c - 64))) r else None
  end.

(* same loop over unbounded integers *)
Fixpoint col_val (acc : Z) (s : text) : Z :=
  match s with
  | [] => acc
  | c :: r => col_val (acc * 26 + (c - 64)) r
  end.

Definition column_to_number (s : text) : outcome Z :=
  match s with
  | [] => Err
  | _ =>
    if negb (forallb is_ascii s) then Err else
    if 3 <? Z.of_nat (length s) then Err else     (* the length guard (fix F16) *)
    match col_loop 0 s with
    | None => Err
    | Some n => if is_valid_column_number n then Ok n else Err
    end
  end.

(* true iff an overflow-checked build panics on [s] (an intermediate value leaves i32) *)
Fixpoint col_overflows (acc : Z) (s : text) : bool :=
  match s with
  | [] => false
  | c :: r =>
    if is_upper c then
      let v := acc * 26 + (c - 64) in
      if v <=? 2147483647 then col_overflows v r else true
    else false
  end.

(* [while i > 0 { r = (i-1)%26; insert(0, 65+r); i = (i-1)/26 }] with explicit fuel *)
Fixpoint n2c_fuel (f : nat) (i : Z) : text :=
  match f with
  | O => []
  | S f' => if 0 <? i then n2c_fuel f' ((i - 1) / 26) ++ [65 + (i - 1) mod 26] else []
  end.

(* 16384 < 26^4: four iterations always suffice on the valid range *)
Definition number_to_column (i : Z) : option text :=
  if is_valid_column_number i then Some (n2c_fuel 4 i) else None.

Definition is_valid_column (s : text) : bool :=
  if (3 <? Z.of_nat (length s)) then false else
  match column_to_number s with Ok n => is_valid_column_number n | _ => false end.
