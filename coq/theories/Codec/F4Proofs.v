(* Codec/F4Proofs.v — theorems about the F4 cycling model (Codec/F4.v). *)
From IronCalc Require Import Base.Prelude Codec.F4.

(* ------------------------------------------------------------------------------------- *)
(* vocabulary of the statements *)

Definition strip_dollar (s : text) : text := filter (fun c => negb (c =? DOLLAR)) s.
Definition all_alpha (s : text) : Prop := forallb is_ascii_alpha s = true.
Definition all_digit (s : text) : Prop := forallb is_digit s = true.
Definition hd_sat (p : Z -> bool) (s : text) : bool := match s with c :: _ => p c | [] => false end.

Fixpoint iter {A} (n : nat) (f : A -> A) (x : A) : A :=
  match n with O => x | S k => iter k f (f x) end.

(* the three endpoint shapes of the lexer's range grammar *)
Inductive endpoint_shape : text -> Prop :=
| ES_cell a col b row : col <> [] -> row <> [] -> all_alpha col -> all_digit row ->
                        endpoint_shape (mk_endpoint a col b row)
| ES_col a col : col <> [] -> all_alpha col -> endpoint_shape (dollar_if a ++ col)
| ES_row a row : row <> [] -> all_digit row -> endpoint_shape (dollar_if a ++ row).

(* ------------------------------------------------------------------------------------- *)
(* characters *)

Lemma alpha_not_dollar c : is_ascii_alpha c = true -> (c =? DOLLAR) = false.
Proof.
  unfold is_ascii_alpha, is_upper, is_lower, DOLLAR. intro H. apply Z.eqb_neq. intro E. subst c.
  vm_compute in H. discriminate.
Qed.

Lemma digit_not_dollar c : is_digit c = true -> (c =? DOLLAR) = false.
Proof.
  unfold is_digit, DOLLAR. intro H. apply Z.eqb_neq. intro E. subst c. vm_compute in H. discriminate.
Qed.

Lemma digit_not_alpha c : is_digit c = true -> is_ascii_alpha c = false.
Proof.
  unfold is_digit, is_ascii_alpha, is_upper, is_lower. intro H.
  apply andb_true_iff in H as [H1 H2]. apply Z.leb_le in H1, H2.
  apply orb_false_iff; split; apply andb_false_iff.
  - left. apply Z.leb_gt. lia.
  - left. apply Z.leb_gt. lia.
Qed.

Lemma alpha_not_digit c : is_ascii_alpha c = true -> is_digit c = false.
Proof.
  intro H. destruct (is_digit c) eqn:E; [|reflexivity].
  apply digit_not_alpha in E. congruence.
Qed.

Lemma upper_char_dollar c : (to_ascii_upper c =? DOLLAR) = (c =? DOLLAR).
Proof.
  unfold to_ascii_upper, is_lower, DOLLAR.
  destruct ((97 <=? c) && (c <=? 122)) eqn:E; [|reflexivity].
  apply andb_true_iff in E as [H1 H2]. apply Z.leb_le in H1, H2.
  transitivity false; [apply Z.eqb_neq; lia | symmetry; apply Z.eqb_neq; lia].
Qed.

Lemma upper_char_idem c : to_ascii_upper (to_ascii_upper c) = to_ascii_upper c.
Proof.
  unfold to_ascii_upper. destruct (is_lower c) eqn:E; [|rewrite E; reflexivity].
  unfold is_lower in *. apply andb_true_iff in E as [H1 H2]. apply Z.leb_le in H1, H2.
  destruct (97 <=? c - 32) eqn:E2; [apply Z.leb_le in E2; lia|]. reflexivity.
Qed.

Lemma upper_char_alpha c : is_ascii_alpha (to_ascii_upper c) = is_ascii_alpha c.
Proof.
  unfold to_ascii_upper, is_lower. destruct ((97 <=? c) && (c <=? 122)) eqn:E; [|reflexivity].
  apply andb_true_iff in E as [H1 H2]. apply Z.leb_le in H1, H2.
  unfold is_ascii_alpha, is_upper, is_lower.
  replace (65 <=? c - 32) with true by (symmetry; apply Z.leb_le; lia).
  replace (c - 32 <=? 90) with true by (symmetry; apply Z.leb_le; lia).
  replace (97 <=? c) with true by (symmetry; apply Z.leb_le; lia).
  replace (c <=? 122) with true by (symmetry; apply Z.leb_le; lia).
  cbn [andb orb]. rewrite orb_true_r. reflexivity.
Qed.

Lemma upper_char_digit c : is_digit c = true -> to_ascii_upper c = c.
Proof.
  unfold is_digit, to_ascii_upper, is_lower. intro H.
  apply andb_true_iff in H as [H1 H2]. apply Z.leb_le in H1, H2.
  replace (97 <=? c) with false by (symmetry; apply Z.leb_gt; lia). reflexivity.
Qed.

(* ------------------------------------------------------------------------------------- *)
(* upper / strip_dollar on texts *)

Lemma upper_app a b : upper (a ++ b) = upper a ++ upper b.
Proof. apply map_app. Qed.

Lemma upper_idem s : upper (upper s) = upper s.
Proof.
  unfold upper. rewrite map_map. apply map_ext. apply upper_char_idem.
Qed.

Lemma upper_digits s : all_digit s -> upper s = s.
Proof.
  unfold all_digit. induction s as [|c s IH]; cbn [forallb upper map]; intro H; [reflexivity|].
  apply andb_true_iff in H as [H1 H2]. rewrite upper_char_digit by exact H1.
  f_equal. apply IH. exact H2.
Qed.

Lemma upper_dollar_if a : upper (dollar_if a) = dollar_if a.
Proof. destruct a; reflexivity. Qed.

Lemma upper_all_alpha s : all_alpha s -> all_alpha (upper s).
Proof.
  unfold all_alpha. induction s as [|c s IH]; cbn [forallb upper map]; intro H; [reflexivity|].
  apply andb_true_iff in H as [H1 H2]. rewrite upper_char_alpha, H1. cbn [andb]. apply IH. exact H2.
Qed.

Lemma upper_nonnil s : s <> [] -> upper s <> [].
Proof. destruct s; [congruence|]. cbn [upper map]. discriminate. Qed.

Lemma strip_app a b : strip_dollar (a ++ b) = strip_dollar a ++ strip_dollar b.
Proof. apply filter_app. Qed.

Lemma strip_dollar_if a : strip_dollar (dollar_if a) = [].
Proof. destruct a; reflexivity. Qed.

Lemma strip_upper s : strip_dollar (upper s) = upper (strip_dollar s).
Proof.
  induction s as [|c s IH]; [reflexivity|].
  cbn [upper map strip_dollar filter]. rewrite upper_char_dollar.
  destruct (c =? DOLLAR); cbn [negb]; [exact IH|].
  cbn [map]. f_equal. exact IH.
Qed.

Lemma strip_alpha s : all_alpha s -> strip_dollar s = s.
Proof.
  unfold all_alpha. induction s as [|c s IH]; cbn [forallb strip_dollar filter]; intro H; [reflexivity|].
  apply andb_true_iff in H as [H1 H2]. rewrite (alpha_not_dollar _ H1). cbn [negb]. f_equal. apply IH. exact H2.
Qed.

Lemma strip_digits s : all_digit s -> strip_dollar s = s.
Proof.
  unfold all_digit. induction s as [|c s IH]; cbn [forallb strip_dollar filter]; intro H; [reflexivity|].
  apply andb_true_iff in H as [H1 H2]. rewrite (digit_not_dollar _ H1). cbn [negb]. f_equal. apply IH. exact H2.
Qed.

(* ------------------------------------------------------------------------------------- *)
(* span / eat_dollar *)

Lemma span_spec p s a b : span p s = (a, b) -> s = a ++ b /\ forallb p a = true /\ hd_sat p b = false.
Proof.
  revert a b. induction s as [|c s IH]; intros a b H; cbn [span] in H.
  - inversion H; subst. repeat split.
  - destruct (p c) eqn:E.
    + destruct (span p s) as [a' b'] eqn:E2. inversion H; subst.
      destruct (IH a' b eq_refl) as (H1 & H2 & H3). subst s.
      repeat split; [|exact H3]. cbn [forallb]. rewrite E, H2. reflexivity.
    + inversion H; subst. repeat split. cbn [hd_sat]. exact E.
Qed.

Lemma span_app p a b : forallb p a = true -> hd_sat p b = false -> span p (a ++ b) = (a, b).
Proof.
  induction a as [|c a IH]; cbn [forallb app]; intros H1 H2.
  - destruct b as [|c b]; [reflexivity|]. cbn [span hd_sat] in *. rewrite H2. reflexivity.
  - apply andb_true_iff in H1 as [H1 H1']. cbn [span]. rewrite H1, (IH H1' H2). reflexivity.
Qed.

Lemma eat_dollar_spec s a r : eat_dollar s = (a, r) -> s = dollar_if a ++ r.
Proof.
  destruct s as [|c s]; cbn [eat_dollar]; [intro H; inversion H; reflexivity|].
  destruct (c =? DOLLAR) eqn:E; intro H; inversion H; subst; [|reflexivity].
  apply Z.eqb_eq in E. subst c. reflexivity.
Qed.

Lemma eat_dollar_mk a s : hd_sat (fun c => c =? DOLLAR) s = false -> eat_dollar (dollar_if a ++ s) = (a, s).
Proof.
  intro H. destruct a; [reflexivity|]. cbn [dollar_if app].
  destruct s as [|c s]; [reflexivity|]. cbn [hd_sat] in H. cbn [eat_dollar]. rewrite H. reflexivity.
Qed.

Lemma hd_alpha_not_dollar s : all_alpha s -> hd_sat (fun c => c =? DOLLAR) s = false.
Proof.
  destruct s as [|c s]; [reflexivity|]. unfold all_alpha. cbn [forallb hd_sat]. intro H.
  apply andb_true_iff in H as [H _]. apply alpha_not_dollar. exact H.
Qed.

Lemma hd_digit_not_dollar s : all_digit s -> hd_sat (fun c => c =? DOLLAR) s = false.
Proof.
  destruct s as [|c s]; [reflexivity|]. unfold all_digit. cbn [forallb hd_sat]. intro H.
  apply andb_true_iff in H as [H _]. apply digit_not_dollar. exact H.
Qed.

Lemma hd_digit_not_alpha s : all_digit s -> hd_sat is_ascii_alpha s = false.
Proof.
  destruct s as [|c s]; [reflexivity|]. unfold all_digit. cbn [forallb hd_sat]. intro H.
  apply andb_true_iff in H as [H _]. apply digit_not_alpha. exact H.
Qed.

Lemma hd_dollar_if_not_alpha b s : all_digit s -> hd_sat is_ascii_alpha (dollar_if b ++ s) = false.
Proof. destruct b; [reflexivity|]. apply hd_digit_not_alpha. Qed.

Lemma span_all p s : forallb p s = true -> span p s = (s, []).
Proof. intro H. rewrite <- (app_nil_r s) at 1. apply span_app; [exact H|reflexivity]. Qed.

Lemma is_nil_false {A} (l : list A) : l <> [] -> is_nil l = false.
Proof. destruct l; [congruence|reflexivity]. Qed.

(* ------------------------------------------------------------------------------------- *)
(* cycle_endpoint on the three shapes *)

Lemma cycle_endpoint_cell a col b row :
  col <> [] -> row <> [] -> all_alpha col -> all_digit row ->
  cycle_endpoint (mk_endpoint a col b row) =
  mk_endpoint (fst (next_state a b)) (upper col) (snd (next_state a b)) row.
Proof.
  intros Hc Hr Ha Hd. unfold cycle_endpoint, mk_endpoint at 1.
  rewrite eat_dollar_mk.
  2:{ destruct col as [|c col]; [congruence|]. apply (hd_alpha_not_dollar (c :: col) Ha). }
  rewrite (span_app is_ascii_alpha col (dollar_if b ++ row) Ha (hd_dollar_if_not_alpha b row Hd)).
  rewrite (eat_dollar_mk b row (hd_digit_not_dollar row Hd)).
  rewrite (span_all is_digit row Hd).
  cbn [is_nil negb orb]. rewrite (is_nil_false col Hc). cbn [andb]. rewrite (is_nil_false row Hr).
  destruct (next_state a b). reflexivity.
Qed.

Lemma cycle_endpoint_col a col :
  col <> [] -> all_alpha col ->
  cycle_endpoint (dollar_if a ++ col) = dollar_if (negb a) ++ upper col.
Proof.
  intros Hc Ha. unfold cycle_endpoint.
  rewrite (eat_dollar_mk a col (hd_alpha_not_dollar col Ha)).
  rewrite (span_all is_ascii_alpha col Ha).
  cbn [eat_dollar span is_nil negb orb]. rewrite (is_nil_false col Hc). cbn [andb].
  unfold mk_endpoint. cbn [dollar_if]. rewrite !app_nil_r. reflexivity.
Qed.

Lemma cycle_endpoint_row a row :
  row <> [] -> all_digit row ->
  cycle_endpoint (dollar_if a ++ row) = dollar_if (negb a) ++ row.
Proof.
  intros Hr Hd. unfold cycle_endpoint.
  rewrite (eat_dollar_mk a row (hd_digit_not_dollar row Hd)).
  replace (span is_ascii_alpha row) with (@nil Z, row).
  2:{ symmetry. apply (span_app is_ascii_alpha [] row eq_refl (hd_digit_not_alpha row Hd)). }
  pose proof (eat_dollar_mk false row (hd_digit_not_dollar row Hd)) as X. cbn [dollar_if app] in X. rewrite X.
  rewrite (span_all is_digit row Hd).
  cbn [is_nil negb orb andb]. rewrite (is_nil_false row Hr).
  unfold mk_endpoint. rewrite orb_false_r. cbn [upper map dollar_if app]. reflexivity.
Qed.

Lemma upper_mk a col b row :
  all_digit row -> upper (mk_endpoint a col b row) = mk_endpoint a (upper col) b row.
Proof.
  intro Hd. unfold mk_endpoint. rewrite !upper_app, !upper_dollar_if, (upper_digits row Hd). reflexivity.
Qed.

Theorem endpoint_shape_closed p : endpoint_shape p -> endpoint_shape (cycle_endpoint p).
Proof.
  intros [a col b row Hc Hr Ha Hd | a col Hc Ha | a row Hr Hd].
  - rewrite cycle_endpoint_cell by assumption.
    apply ES_cell; auto using upper_nonnil, upper_all_alpha.
  - rewrite cycle_endpoint_col by assumption. apply ES_col; auto using upper_nonnil, upper_all_alpha.
  - rewrite cycle_endpoint_row by assumption. apply ES_row; assumption.
Qed.

(* four presses return the upper-cased endpoint, for every endpoint of the grammar *)
Theorem endpoint_period4 p : endpoint_shape p -> iter 4 cycle_endpoint p = upper p.
Proof.
  intros [a col b row Hc Hr Ha Hd | a col Hc Ha | a row Hr Hd]; cbn [iter].
  - rewrite cycle_endpoint_cell by assumption.
    rewrite cycle_endpoint_cell by auto using upper_nonnil, upper_all_alpha.
    rewrite cycle_endpoint_cell by auto using upper_nonnil, upper_all_alpha.
    rewrite cycle_endpoint_cell by auto using upper_nonnil, upper_all_alpha.
    rewrite !upper_idem, (upper_mk a col b row Hd). destruct a, b; reflexivity.
  - rewrite cycle_endpoint_col by assumption.
    rewrite cycle_endpoint_col by auto using upper_nonnil, upper_all_alpha.
    rewrite cycle_endpoint_col by auto using upper_nonnil, upper_all_alpha.
    rewrite cycle_endpoint_col by auto using upper_nonnil, upper_all_alpha.
    rewrite !upper_idem, upper_app, upper_dollar_if, !negb_involutive. reflexivity.
  - rewrite !cycle_endpoint_row by assumption.
    rewrite upper_app, upper_dollar_if, (upper_digits row Hd), !negb_involutive. reflexivity.
Qed.

(* row-only and column-only endpoints already return after two presses *)
Theorem endpoint_period2_col a col :
  col <> [] -> all_alpha col -> iter 2 cycle_endpoint (dollar_if a ++ col) = upper (dollar_if a ++ col).
Proof.
  intros Hc Ha. cbn [iter]. rewrite cycle_endpoint_col by assumption.
  rewrite cycle_endpoint_col by auto using upper_nonnil, upper_all_alpha.
  rewrite upper_idem, upper_app, upper_dollar_if, negb_involutive. reflexivity.
Qed.

Theorem endpoint_period2_row a row :
  row <> [] -> all_digit row -> iter 2 cycle_endpoint (dollar_if a ++ row) = upper (dollar_if a ++ row).
Proof.
  intros Hr Hd. cbn [iter]. rewrite !cycle_endpoint_row by assumption.
  rewrite upper_app, upper_dollar_if, (upper_digits row Hd), negb_involutive. reflexivity.
Qed.

(* a full cell reference has exactly period four: the three intermediate states differ
   from the (upper-cased) original *)
Lemma mk_endpoint_flags a b a' b' col row :
  all_alpha col -> all_digit row -> col <> [] -> row <> [] ->
  mk_endpoint a col b row = mk_endpoint a' col b' row -> a = a' /\ b = b'.
Proof.
  intros Ha Hd Hc Hr. unfold mk_endpoint.
  destruct col as [|c col]; [congruence|]. destruct row as [|d row]; [congruence|].
  assert (Hcd : c <> DOLLAR).
  { unfold all_alpha in Ha. cbn [forallb] in Ha. apply andb_true_iff in Ha as [Ha _].
    apply alpha_not_dollar in Ha. apply Z.eqb_neq in Ha. exact Ha. }
  assert (Hdd : d <> DOLLAR).
  { unfold all_digit in Hd. cbn [forallb] in Hd. apply andb_true_iff in Hd as [Hd _].
    apply digit_not_dollar in Hd. apply Z.eqb_neq in Hd. exact Hd. }
  intro E.
  assert (Ea : a = a').
  { destruct a, a'; cbn [dollar_if app] in E; try reflexivity; inversion E; congruence. }
  subst a'. split; [reflexivity|].
  apply app_inv_head in E. change (c :: col ++ dollar_if b ++ d :: row) with ((c :: col) ++ dollar_if b ++ d :: row) in E.
  change (c :: col ++ dollar_if b' ++ d :: row) with ((c :: col) ++ dollar_if b' ++ d :: row) in E.
  apply app_inv_head in E.
  destruct b, b'; cbn [dollar_if app] in E; try reflexivity; inversion E; congruence.
Qed.

Theorem endpoint_cell_period_exact a col b row :
  col <> [] -> row <> [] -> all_alpha col -> all_digit row ->
  let p := mk_endpoint a col b row in
  iter 1 cycle_endpoint p <> upper p /\ iter 2 cycle_endpoint p <> upper p /\
  iter 3 cycle_endpoint p <> upper p /\ iter 4 cycle_endpoint p = upper p.
Proof.
  intros Hc Hr Ha Hd p. subst p.
  assert (Hc' := upper_nonnil col Hc). assert (Ha' := upper_all_alpha col Ha).
  rewrite (upper_mk a col b row Hd).
  repeat split; cbn [iter].
  - rewrite cycle_endpoint_cell by assumption. intro E.
    apply mk_endpoint_flags in E; try assumption. destruct a, b, E; discriminate.
  - rewrite cycle_endpoint_cell by assumption. rewrite cycle_endpoint_cell by assumption.
    rewrite upper_idem. intro E.
    apply mk_endpoint_flags in E; try assumption. destruct a, b, E; discriminate.
  - rewrite cycle_endpoint_cell by assumption. rewrite cycle_endpoint_cell by assumption.
    rewrite cycle_endpoint_cell by (rewrite ?upper_idem; assumption).
    rewrite !upper_idem. intro E.
    apply mk_endpoint_flags in E; try assumption. destruct a, b, E; discriminate.
  - rewrite <- (upper_mk a col b row Hd). apply (endpoint_period4 _ (ES_cell a col b row Hc Hr Ha Hd)).
Qed.

(* only '$' markers and letter case change — for EVERY text, of the grammar or not *)
Theorem endpoint_only_dollars_any p :
  upper (strip_dollar (cycle_endpoint p)) = upper (strip_dollar p).
Proof.
  unfold cycle_endpoint.
  destruct (eat_dollar p) as [a r1] eqn:E1.
  destruct (span is_ascii_alpha r1) as [col r2] eqn:E2.
  destruct (eat_dollar r2) as [b r3] eqn:E3.
  destruct (span is_digit r3) as [row r4] eqn:E4.
  destruct (negb (is_nil r4) || (is_nil col && is_nil row)) eqn:G; [reflexivity|].
  apply orb_false_iff in G as [G1 _]. destruct r4; [|discriminate].
  apply eat_dollar_spec in E1. apply span_spec in E2 as (E2 & _ & _).
  apply eat_dollar_spec in E3. apply span_spec in E4 as (E4 & _ & _).
  subst p r1 r2 r3. rewrite app_nil_r.
  match goal with |- context [let (x, y) := ?e in _] => destruct e as [nc nr] end.
  unfold mk_endpoint.
  rewrite !strip_app, !strip_dollar_if, strip_upper. cbn [app].
  rewrite !upper_app, upper_idem. reflexivity.
Qed.

Theorem endpoint_only_dollars p :
  endpoint_shape p -> strip_dollar (cycle_endpoint p) = upper (strip_dollar p).
Proof.
  intros [a col b row Hc Hr Ha Hd | a col Hc Ha | a row Hr Hd].
  - rewrite cycle_endpoint_cell by assumption. unfold mk_endpoint.
    rewrite !strip_app, !strip_dollar_if, strip_upper. cbn [app].
    rewrite upper_app, (strip_digits row Hd), (upper_digits row Hd). reflexivity.
  - rewrite cycle_endpoint_col by assumption.
    rewrite !strip_app, !strip_dollar_if, strip_upper. reflexivity.
  - rewrite cycle_endpoint_row by assumption.
    rewrite !strip_app, !strip_dollar_if. cbn [app]. rewrite (strip_digits row Hd), (upper_digits row Hd). reflexivity.
Qed.

(* ------------------------------------------------------------------------------------- *)
(* the endpoint loop of cycle_token_text: split at ':' *)

Definition no_char (x : Z) (s : text) : Prop := forallb (fun c => negb (c =? x)) s = true.
Definition ep_char (c : Z) : bool := is_ascii_alpha c || is_digit c || (c =? DOLLAR).

Lemma forallb_imp (p q : Z -> bool) s :
  (forall c, p c = true -> q c = true) -> forallb p s = true -> forallb q s = true.
Proof.
  intro H. induction s as [|c s IH]; cbn [forallb]; [reflexivity|]. intro G.
  apply andb_true_iff in G as [G1 G2]. rewrite (H c G1), (IH G2). reflexivity.
Qed.

Lemma split_colon_nonnil s : split_colon s <> [].
Proof.
  destruct s as [|c s]; cbn [split_colon]; [discriminate|].
  destruct (c =? COLON); [discriminate|]. destruct (split_colon s); discriminate.
Qed.

Lemma split_colon_nocolon p : no_char COLON p -> split_colon p = [p].
Proof.
  unfold no_char. induction p as [|c p IH]; cbn [forallb split_colon]; intro H; [reflexivity|].
  apply andb_true_iff in H as [H1 H2]. apply negb_true_iff in H1. rewrite H1, (IH H2). reflexivity.
Qed.

Lemma split_colon_app p s : no_char COLON p -> split_colon (p ++ COLON :: s) = p :: split_colon s.
Proof.
  unfold no_char. induction p as [|c p IH]; cbn [forallb split_colon app]; intro H.
  - rewrite Z.eqb_refl. reflexivity.
  - apply andb_true_iff in H as [H1 H2]. apply negb_true_iff in H1. rewrite H1, (IH H2). reflexivity.
Qed.

Lemma join_split s : join_colon (split_colon s) = s.
Proof.
  induction s as [|c s IH]; [reflexivity|]. cbn [split_colon].
  destruct (c =? COLON) eqn:E.
  - apply Z.eqb_eq in E. subst c. destruct (split_colon s) as [|h t] eqn:Es; [exfalso; exact (split_colon_nonnil s Es)|].
    cbn [join_colon app]. cbn [join_colon] in IH. rewrite IH. reflexivity.
  - destruct (split_colon s) as [|h t] eqn:Es; [exfalso; exact (split_colon_nonnil s Es)|].
    destruct t as [|h2 t]; cbn [join_colon app] in *; rewrite <- IH; reflexivity.
Qed.

Lemma strip_colon_cons x : strip_dollar (COLON :: x) = COLON :: strip_dollar x.
Proof. reflexivity. Qed.

Lemma upper_colon_cons x : upper (COLON :: x) = COLON :: upper x.
Proof. reflexivity. Qed.

Lemma join_map_strip l :
  upper (strip_dollar (join_colon (map cycle_endpoint l))) = upper (strip_dollar (join_colon l)).
Proof.
  induction l as [|p l IH]; [reflexivity|].
  destruct l as [|q r].
  - cbn [map join_colon]. apply endpoint_only_dollars_any.
  - change (join_colon (map cycle_endpoint (p :: q :: r)))
      with (cycle_endpoint p ++ COLON :: join_colon (map cycle_endpoint (q :: r))).
    change (join_colon (p :: q :: r)) with (p ++ COLON :: join_colon (q :: r)).
    rewrite !strip_app, !strip_colon_cons, !upper_app, !upper_colon_cons, IH, endpoint_only_dollars_any.
    reflexivity.
Qed.

(* only '$' and case change in the reference part — for every text *)
Theorem parts_only_dollars_any s : upper (strip_dollar (cycle_parts s)) = upper (strip_dollar s).
Proof. unfold cycle_parts. rewrite join_map_strip, join_split. reflexivity. Qed.

(* both endpoints of a range are cycled *)
Theorem parts_range p q :
  no_char COLON p -> no_char COLON q ->
  cycle_parts (p ++ COLON :: q) = cycle_endpoint p ++ COLON :: cycle_endpoint q.
Proof.
  intros Hp Hq. unfold cycle_parts. rewrite (split_colon_app p q Hp), (split_colon_nocolon q Hq). reflexivity.
Qed.

Theorem parts_single p : no_char COLON p -> cycle_parts p = cycle_endpoint p.
Proof. intro Hp. unfold cycle_parts. rewrite (split_colon_nocolon p Hp). reflexivity. Qed.

(* ---- reference texts of the grammar: endpoint, or endpoint ':' endpoint ----------------- *)
Inductive ref_shape : text -> Prop :=
| RS_one p : endpoint_shape p -> ref_shape p
| RS_range p q : endpoint_shape p -> endpoint_shape q -> ref_shape (p ++ COLON :: q).

Lemma forallb_app_true (p : Z -> bool) a b : forallb p a = true -> forallb p b = true -> forallb p (a ++ b) = true.
Proof. intros H1 H2. rewrite forallb_app, H1, H2. reflexivity. Qed.

Lemma ep_char_dollar_if a : forallb ep_char (dollar_if a) = true.
Proof. destruct a; reflexivity. Qed.

Lemma ep_char_alpha s : all_alpha s -> forallb ep_char s = true.
Proof. apply forallb_imp. intros c H. unfold ep_char. rewrite H. reflexivity. Qed.

Lemma ep_char_digit s : all_digit s -> forallb ep_char s = true.
Proof. apply forallb_imp. intros c H. unfold ep_char. rewrite H, orb_true_r. reflexivity. Qed.

Lemma endpoint_chars p : endpoint_shape p -> forallb ep_char p = true /\ p <> [].
Proof.
  intros [a col b row Hc Hr Ha Hd | a col Hc Ha | a row Hr Hd]; unfold mk_endpoint; split;
    repeat apply forallb_app_true; auto using ep_char_dollar_if, ep_char_alpha, ep_char_digit.
  - destruct a, col; cbn [dollar_if app]; congruence.
  - destruct a, col; cbn [dollar_if app]; congruence.
  - destruct a, row; cbn [dollar_if app]; congruence.
Qed.

Lemma ep_chars_no x s : ep_char x = false -> forallb ep_char s = true -> no_char x s.
Proof.
  intros Hx. apply forallb_imp. intros c Hc. apply negb_true_iff. apply Z.eqb_neq. intro E. subst c. congruence.
Qed.

Lemma endpoint_no_colon p : endpoint_shape p -> no_char COLON p.
Proof. intro H. apply (ep_chars_no COLON p eq_refl). apply endpoint_chars. exact H. Qed.

Lemma iter_endpoint_shape n p : endpoint_shape p -> endpoint_shape (iter n cycle_endpoint p).
Proof. revert p. induction n as [|n IH]; intros p H; cbn [iter]; [exact H|]. apply IH. apply endpoint_shape_closed. exact H. Qed.

Lemma iter_parts_one n p : endpoint_shape p -> iter n cycle_parts p = iter n cycle_endpoint p.
Proof.
  revert p. induction n as [|n IH]; intros p H; cbn [iter]; [reflexivity|].
  rewrite (parts_single p (endpoint_no_colon p H)). apply IH. apply endpoint_shape_closed. exact H.
Qed.

Lemma iter_parts_range n p q :
  endpoint_shape p -> endpoint_shape q ->
  iter n cycle_parts (p ++ COLON :: q) = iter n cycle_endpoint p ++ COLON :: iter n cycle_endpoint q.
Proof.
  revert p q. induction n as [|n IH]; intros p q Hp Hq; cbn [iter]; [reflexivity|].
  rewrite (parts_range p q (endpoint_no_colon p Hp) (endpoint_no_colon q Hq)).
  apply IH; apply endpoint_shape_closed; assumption.
Qed.

Theorem ref_shape_closed r : ref_shape r -> ref_shape (cycle_parts r).
Proof.
  intros [p Hp | p q Hp Hq].
  - rewrite (parts_single p (endpoint_no_colon p Hp)). apply RS_one, endpoint_shape_closed, Hp.
  - rewrite (parts_range p q (endpoint_no_colon p Hp) (endpoint_no_colon q Hq)).
    apply RS_range; apply endpoint_shape_closed; assumption.
Qed.

Theorem parts_period4 r : ref_shape r -> iter 4 cycle_parts r = upper r.
Proof.
  intros [p Hp | p q Hp Hq].
  - rewrite (iter_parts_one 4 p Hp). apply endpoint_period4. exact Hp.
  - rewrite (iter_parts_range 4 p q Hp Hq), !endpoint_period4 by assumption.
    rewrite upper_app, upper_colon_cons. reflexivity.
Qed.

Theorem parts_only_dollars r : ref_shape r -> strip_dollar (cycle_parts r) = upper (strip_dollar r).
Proof.
  intros [p Hp | p q Hp Hq].
  - rewrite (parts_single p (endpoint_no_colon p Hp)). apply endpoint_only_dollars. exact Hp.
  - rewrite (parts_range p q (endpoint_no_colon p Hp) (endpoint_no_colon q Hq)).
    rewrite !strip_app, !strip_colon_cons, upper_app, upper_colon_cons, !endpoint_only_dollars by assumption.
    reflexivity.
Qed.

(* ---- sheet prefixes ---------------------------------------------------------------- *)
Fixpoint double_quotes (s : text) : text :=
  match s with
  | [] => []
  | c :: r => if c =? QUOTE then QUOTE :: QUOTE :: double_quotes r else c :: double_quotes r
  end.

Definition is_quote (c : Z) : bool := c =? QUOTE.

Lemma copy_quoted_doubled name rest :
  hd_sat is_quote rest = false ->
  copy_quoted (double_quotes name ++ QUOTE :: rest) = (double_quotes name ++ [QUOTE], rest).
Proof.
  intro H. induction name as [|c name IH]; cbn [double_quotes app].
  - cbn [copy_quoted]. rewrite Z.eqb_refl. destruct rest as [|c2 r']; [reflexivity|].
    cbn [hd_sat] in H. unfold is_quote in H. rewrite H. reflexivity.
  - destruct (c =? QUOTE) eqn:E.
    + cbn [app copy_quoted]. rewrite !Z.eqb_refl. rewrite IH. reflexivity.
    + cbn [app copy_quoted]. rewrite E, IH. reflexivity.
Qed.

Lemma copy_quoted_spec s a b : copy_quoted s = (a, b) -> s = a ++ b.
Proof.
  remember (length s) as n eqn:Hn. revert s a b Hn.
  induction n as [n IHn] using lt_wf_ind. intros s a b Hn H.
  destruct s as [|c s]; cbn [copy_quoted] in H; [inversion H; reflexivity|].
  destruct (c =? QUOTE) eqn:E.
  - apply Z.eqb_eq in E. subst c. destruct s as [|c2 s']; [inversion H; reflexivity|].
    destruct (c2 =? QUOTE) eqn:E2.
    + apply Z.eqb_eq in E2. subst c2. destruct (copy_quoted s') as [a' b'] eqn:E3. inversion H; subst.
      cbn [app]. f_equal. f_equal. apply (IHn (length s')); [cbn [length]; lia|reflexivity|exact E3].
    + inversion H; subst. reflexivity.
  - destruct (copy_quoted s) as [a' b'] eqn:E3. inversion H; subst. cbn [app]. f_equal.
    apply (IHn (length s)); [cbn [length]; lia|reflexivity|exact E3].
Qed.

Lemma split_bang_app name r : no_char BANG name -> split_bang (name ++ BANG :: r) = Some (name ++ [BANG], r).
Proof.
  unfold no_char. induction name as [|c name IH]; cbn [forallb app split_bang]; intro H.
  - rewrite Z.eqb_refl. reflexivity.
  - apply andb_true_iff in H as [H1 H2]. apply negb_true_iff in H1. rewrite H1, (IH H2). reflexivity.
Qed.

Lemma split_bang_none r : no_char BANG r -> split_bang r = None.
Proof.
  unfold no_char. induction r as [|c r IH]; cbn [forallb split_bang]; intro H; [reflexivity|].
  apply andb_true_iff in H as [H1 H2]. apply negb_true_iff in H1. rewrite H1, (IH H2). reflexivity.
Qed.

Lemma split_bang_spec s a b : split_bang s = Some (a, b) -> s = a ++ b.
Proof.
  revert a b. induction s as [|c s IH]; cbn [split_bang]; intros a b H; [discriminate|].
  destruct (c =? BANG).
  - inversion H; subst. reflexivity.
  - destruct (split_bang s) as [[a' b']|]; [|discriminate]. inversion H; subst.
    cbn [app]. f_equal. apply IH. reflexivity.
Qed.

Lemma split_prefix_spec r p rest : split_prefix r = (p, rest) -> r = p ++ rest.
Proof.
  destruct r as [|c r1]; cbn [split_prefix]; [intro H; inversion H; reflexivity|].
  destruct (c =? QUOTE) eqn:E.
  - apply Z.eqb_eq in E. subst c. destruct (copy_quoted r1) as [q r2] eqn:E2.
    apply copy_quoted_spec in E2. subst r1.
    destruct r2 as [|b r3].
    + intro H; inversion H; subst. reflexivity.
    + destruct (b =? BANG) eqn:E3; intro H; inversion H; subst; [|reflexivity].
      apply Z.eqb_eq in E3. subst b. cbn [app]. rewrite <- app_assoc. reflexivity.
  - destruct (split_bang (c :: r1)) as [[a b]|] eqn:E2; intro H; inversion H; subst; [|reflexivity].
    apply split_bang_spec in E2. exact E2.
Qed.

(* the three forms of sheet prefix *)
Inductive prefix_shape : text -> Prop :=
| PS_none : prefix_shape []
| PS_plain name : name <> [] -> no_char BANG name -> hd_sat is_quote name = false ->
                  prefix_shape (name ++ [BANG])
| PS_quoted name : prefix_shape (QUOTE :: double_quotes name ++ [QUOTE; BANG]).

Definition clean (r : text) : Prop := no_char BANG r /\ hd_sat is_quote r = false.

Lemma split_prefix_shape pre r : prefix_shape pre -> clean r -> split_prefix (pre ++ r) = (pre, r).
Proof.
  intros Hp [Hb Hq]. destruct Hp as [|name Hn Hnb Hnq|name].
  - cbn [app]. destruct r as [|c r1]; [reflexivity|]. cbn [split_prefix]. cbn [hd_sat] in Hq. unfold is_quote in Hq.
    rewrite Hq, (split_bang_none (c :: r1) Hb). reflexivity.
  - destruct name as [|c name]; [congruence|]. cbn [hd_sat] in Hnq. unfold is_quote in Hnq.
    rewrite <- app_assoc. cbn [app split_prefix]. rewrite Hnq.
    change (c :: name ++ BANG :: r) with ((c :: name) ++ BANG :: r).
    rewrite (split_bang_app (c :: name) r Hnb). reflexivity.
  - cbn [app split_prefix]. rewrite Z.eqb_refl. rewrite <- app_assoc. cbn [app].
    rewrite (copy_quoted_doubled name (BANG :: r) eq_refl). rewrite Z.eqb_refl.
    rewrite <- app_assoc. reflexivity.
Qed.

Lemma ref_shape_chars r : ref_shape r -> forallb (fun c => ep_char c || (c =? COLON)) r = true /\ hd_sat ep_char r = true.
Proof.
  assert (W : forall p, forallb ep_char p = true -> forallb (fun c => ep_char c || (c =? COLON)) p = true).
  { intro p. apply forallb_imp. intros c H. rewrite H. reflexivity. }
  intros [p Hp | p q Hp Hq].
  - destruct (endpoint_chars p Hp) as [H1 H2]. split; [apply W, H1|].
    destruct p as [|c p]; [congruence|]. cbn [forallb hd_sat] in *. apply andb_true_iff in H1 as [H1 _]. exact H1.
  - destruct (endpoint_chars p Hp) as [H1 H2]. destruct (endpoint_chars q Hq) as [H3 _]. split.
    + apply forallb_app_true; [apply W, H1|]. cbn [forallb]. rewrite Z.eqb_refl, orb_true_r. cbn [andb]. apply W, H3.
    + destruct p as [|c p]; [congruence|]. cbn [forallb hd_sat app] in *. apply andb_true_iff in H1 as [H1 _]. exact H1.
Qed.

Lemma ref_shape_clean r : ref_shape r -> clean r.
Proof.
  intro H. destruct (ref_shape_chars r H) as [H1 H2]. split.
  - revert H1. apply forallb_imp. intros c Hc. apply negb_true_iff, Z.eqb_neq. intro E. subst c. discriminate.
  - destruct r as [|c r]; [reflexivity|]. cbn [hd_sat] in *. unfold is_quote.
    apply Z.eqb_neq. intro E. subst c. discriminate.
Qed.

Section Token.
  Variable ws : Z -> bool.
  (* char::is_whitespace is false on '$', ASCII letters and digits *)
  Hypothesis ws_ep : forall c, ep_char c = true -> ws c = false.

  Lemma token_step blanks pre r :
    forallb ws blanks = true -> prefix_shape pre -> clean r -> hd_sat ws (pre ++ r) = false ->
    cycle_token_text ws (blanks ++ pre ++ r) = blanks ++ pre ++ cycle_parts r.
  Proof.
    intros Hb Hp Hc Hh. unfold cycle_token_text.
    rewrite (span_app ws blanks (pre ++ r) Hb Hh), (split_prefix_shape pre r Hp Hc). reflexivity.
  Qed.

  Lemma hd_pre_ref pre r : hd_sat ws pre = false -> ref_shape r -> hd_sat ws (pre ++ r) = false.
  Proof.
    intros Hp Hr. destruct pre as [|c pre]; [|exact Hp]. cbn [app].
    destruct (ref_shape_chars r Hr) as [_ H]. destruct r as [|c r]; [reflexivity|]. cbn [hd_sat] in *. apply ws_ep, H.
  Qed.

  Lemma iter_token n blanks pre r :
    forallb ws blanks = true -> prefix_shape pre -> hd_sat ws pre = false -> ref_shape r ->
    iter n (cycle_token_text ws) (blanks ++ pre ++ r) = blanks ++ pre ++ iter n cycle_parts r.
  Proof.
    intros Hb Hp Hh. revert r. induction n as [|n IH]; intros r Hr; cbn [iter]; [reflexivity|].
    rewrite (token_step blanks pre r Hb Hp (ref_shape_clean r Hr) (hd_pre_ref pre r Hh Hr)).
    apply IH. apply ref_shape_closed. exact Hr.
  Qed.

  (* a whole token: leading blanks and the sheet prefix are copied verbatim, the reference
     part is cycled; four presses return the token with the reference part upper-cased *)
  Theorem token_cycle blanks pre r :
    forallb ws blanks = true -> prefix_shape pre -> hd_sat ws pre = false -> ref_shape r ->
    cycle_token_text ws (blanks ++ pre ++ r) = blanks ++ pre ++ cycle_parts r.
  Proof. intros Hb Hp Hh Hr. exact (iter_token 1 blanks pre r Hb Hp Hh Hr). Qed.

  Theorem token_period4 blanks pre r :
    forallb ws blanks = true -> prefix_shape pre -> hd_sat ws pre = false -> ref_shape r ->
    iter 4 (cycle_token_text ws) (blanks ++ pre ++ r) = blanks ++ pre ++ upper r.
  Proof. intros Hb Hp Hh Hr. rewrite (iter_token 4 blanks pre r Hb Hp Hh Hr), (parts_period4 r Hr). reflexivity. Qed.

  (* for EVERY token text: it splits as blanks ++ prefix ++ rest, blanks and prefix are copied,
     and in the rest only '$' markers and letter case change *)
  Theorem token_decomposition_any t :
    exists blanks pre rest,
      t = blanks ++ pre ++ rest /\
      cycle_token_text ws t = blanks ++ pre ++ cycle_parts rest /\
      upper (strip_dollar (cycle_parts rest)) = upper (strip_dollar rest).
  Proof.
    unfold cycle_token_text. destruct (span ws t) as [blanks r] eqn:E1.
    destruct (split_prefix r) as [pre rest] eqn:E2.
    exists blanks, pre, rest. apply span_spec in E1 as (E1 & _ & _). apply split_prefix_spec in E2.
    subst. repeat split. apply parts_only_dollars_any.
  Qed.

  Theorem token_only_dollars_any t :
    upper (strip_dollar (cycle_token_text ws t)) = upper (strip_dollar t).
  Proof.
    destruct (token_decomposition_any t) as (b & p & r & E1 & E2 & E3). rewrite E2.
    transitivity (upper (strip_dollar (b ++ p ++ r))); [|rewrite <- E1; reflexivity].
    rewrite !strip_app, !upper_app, E3. reflexivity.
  Qed.
End Token.

Lemma f4_ws_ep c : ep_char c = true -> f4_ws c = false.
Proof.
  unfold ep_char, is_ascii_alpha, is_upper, is_lower, is_digit, DOLLAR, f4_ws. intro H.
  assert (R : 36 <= c <= 122).
  { repeat (apply orb_true_iff in H as [H|H]); try (apply andb_true_iff in H as [H1 H2]; apply Z.leb_le in H1, H2; lia).
    apply Z.eqb_eq in H. lia. }
  repeat (apply orb_false_iff; split); try (apply Z.eqb_neq; lia);
    apply andb_false_iff; (left; apply Z.leb_gt; lia) || (right; apply Z.leb_gt; lia).
Qed.

(* ------------------------------------------------------------------------------------- *)
(* the driver: which tokens are rewritten, what is copied, where the cursor lands *)

Section Driver.
  Variable ws : Z -> bool.

  (* "a cursor grazing the edge of a reference counts as touching it" *)
  Definition touched (ss se : Z) (m : mtoken) : bool :=
    t_ref m && negb ((Z.max (t_start m) 0 + 1 >? se) || (ss >? Z.max (t_end m) 0 + 1)).

  Definition seg (body : text) (a b : Z) : text :=
    firstn (Z.to_nat (b - a)) (skipn (Z.to_nat a) body).

  (* token boundaries as a lexer produces them: ordered, inside the body *)
  Fixpoint monotone (k len : Z) (toks : list mtoken) : Prop :=
    match toks with
    | [] => k <= len
    | m :: r => k <= t_start m /\ t_start m <= t_end m /\ monotone (t_end m) len r
    end.

  (* the specification of the rewritten body from position [k] on: gaps and untouched
     tokens are copied, touched tokens are replaced by [cycle_token_text] of their text *)
  Fixpoint spec_tail (body : text) (ss se k : Z) (toks : list mtoken) : text :=
    match toks with
    | [] => skipn (Z.to_nat k) body
    | m :: r =>
      if touched ss se m
      then seg body k (t_start m) ++ cycle_token_text ws (seg body (t_start m) (t_end m))
           ++ spec_tail body ss se (t_end m) r
      else spec_tail body ss se k r
    end.

  (* end of the last touched token ([k] when none is) *)
  Fixpoint last_end (ss se k : Z) (toks : list mtoken) : Z :=
    match toks with
    | [] => k
    | m :: r => if touched ss se m then last_end ss se (t_end m) r else last_end ss se k r
    end.

  Definition untouched_all (ss se : Z) (toks : list mtoken) : Prop :=
    forallb (fun m => negb (touched ss se m)) toks = true.

  Lemma monotone_le k len toks : monotone k len toks -> k <= len.
  Proof.
    revert k. induction toks as [|m r IH]; intros k H; cbn [monotone] in H; [exact H|].
    destruct H as (H1 & H2 & H3). apply IH in H3. lia.
  Qed.

  Lemma monotone_weaken k k' len toks : k <= k' -> monotone k' len toks -> monotone k len toks.
  Proof.
    destruct toks; cbn [monotone]; intros H1 H2; [lia|].
    destruct H2 as (A & B & C). repeat split; [lia|exact B|exact C].
  Qed.

  Lemma slice_ok v a b : 0 <= a -> a <= b -> b <= lenZ v -> slice v a b = Ok (seg v a b).
  Proof.
    intros H1 H2 H3. unfold slice, lenZ in *.
    replace (0 <=? a) with true by (symmetry; apply Z.leb_le; lia).
    replace (a <=? b) with true by (symmetry; apply Z.leb_le; lia).
    replace (b <=? Z.of_nat (length v)) with true by (symmetry; apply Z.leb_le; lia).
    reflexivity.
  Qed.

  Lemma seg_to_end body k : 0 <= k <= lenZ body -> seg body k (lenZ body) = skipn (Z.to_nat k) body.
  Proof.
    intro H. unfold seg, lenZ in *. apply firstn_all2. rewrite skipn_length. lia.
  Qed.

  Lemma spec_tail_untouched body ss se k toks :
    untouched_all ss se toks -> spec_tail body ss se k toks = skipn (Z.to_nat k) body.
  Proof.
    unfold untouched_all. induction toks as [|m r IH]; cbn [forallb spec_tail]; intro H; [reflexivity|].
    apply andb_true_iff in H as [H1 H2]. apply negb_true_iff in H1. rewrite H1. apply IH, H2.
  Qed.

  Lemma step_token_untouched body ss se st m :
    touched ss se m = false -> step_token ws body ss se st m = Ok st.
  Proof.
    unfold touched, step_token. destruct (t_ref m); cbn [negb andb]; [|reflexivity].
    destruct ((Z.max (t_start m) 0 + 1 >? se) || (ss >? Z.max (t_end m) 0 + 1)); cbn [negb]; [reflexivity|discriminate].
  Qed.

  Definition touched_state (body : text) (st : cstate) (m : mtoken) : cstate :=
    let result1 := c_result st ++ seg body (c_copied st) (t_start m) in
    let token_text := seg body (t_start m) (t_end m) in
    let result2 := result1 ++ cycle_token_text ws token_text in
    {| c_result := result2; c_copied := t_end m;
       c_first := match c_first st with
                  | Some x => Some x
                  | None => Some (1 + lenZ result1 + lenZ (fst (span ws token_text)))
                  end;
       c_last := 1 + lenZ result2 |}.

  Lemma step_token_touched body ss se st m :
    touched ss se m = true ->
    0 <= c_copied st -> c_copied st <= t_start m -> t_start m <= t_end m -> t_end m <= lenZ body ->
    step_token ws body ss se st m = Ok (touched_state body st m).
  Proof.
    intros Ht H0 H1 H2 H3. unfold touched in Ht. apply andb_true_iff in Ht as [Hr Hc].
    apply negb_true_iff in Hc. unfold step_token. rewrite Hr. cbn [negb]. cbv zeta.
    rewrite Hc.
    rewrite !Z.max_l by lia. rewrite !Z.add_simpl_r.
    rewrite (slice_ok body (c_copied st) (t_start m)) by lia. cbn [obind].
    rewrite (slice_ok body (t_start m) (t_end m)) by lia. cbn [obind].
    reflexivity.
  Qed.

  Definition last_inv (st : cstate) : Prop :=
    c_first st = None \/ c_last st = 1 + lenZ (c_result st).

  Lemma run_tokens_spec body ss se : forall toks st,
    0 <= c_copied st -> monotone (c_copied st) (lenZ body) toks ->
    exists st', run_tokens ws body ss se st toks = Ok st' /\
      c_result st' ++ skipn (Z.to_nat (c_copied st')) body
        = c_result st ++ spec_tail body ss se (c_copied st) toks /\
      c_copied st' = last_end ss se (c_copied st) toks /\
      0 <= c_copied st' <= lenZ body /\
      (forall x, c_first st = Some x -> c_first st' = Some x) /\
      (c_first st' = None -> untouched_all ss se toks) /\
      (last_inv st -> last_inv st').
  Proof.
    induction toks as [|m r IH]; intros st H0 Hm.
    - exists st. cbn [run_tokens spec_tail last_end monotone] in *. repeat split; auto; lia.
    - cbn [monotone] in Hm. destruct Hm as (M1 & M2 & M3).
      assert (M4 := monotone_le _ _ _ M3).
      cbn [run_tokens spec_tail last_end]. unfold untouched_all. cbn [forallb].
      destruct (touched ss se m) eqn:Ht.
      + rewrite (step_token_touched body ss se st m Ht H0 M1 M2 M4). cbn [obind].
        destruct (IH (touched_state body st m)) as (st' & R1 & R2 & R3 & R4 & R5 & R6 & R7).
        { cbn [touched_state c_copied]. lia. }
        { cbn [touched_state c_copied]. exact M3. }
        exists st'. split; [exact R1|]. cbn [touched_state c_copied c_result c_first c_last] in *.
        split; [rewrite R2, <- !app_assoc; reflexivity|].
        split; [exact R3|]. split; [exact R4|].
        split; [intros x Hx; apply R5; rewrite Hx; reflexivity|].
        split.
        * intro Hn. exfalso. destruct (c_first st) as [x|].
          -- rewrite (R5 x eq_refl) in Hn. discriminate.
          -- rewrite (R5 _ eq_refl) in Hn. discriminate.
        * intros _. apply R7. right. reflexivity.
      + rewrite (step_token_untouched body ss se st m Ht). cbn [obind negb andb].
        assert (W : monotone (c_copied st) (lenZ body) r) by (apply (monotone_weaken _ (t_end m)); [lia|exact M3]).
        destruct (IH st H0 W) as (st' & R1 & R2 & R3 & R4 & R5 & R6 & R7).
        exists st'. repeat split; auto; lia.
  Qed.

  Lemma skipn_past (R tail : text) : skipn (Z.to_nat (1 + lenZ R)) (EQUALS :: R ++ tail) = tail.
  Proof.
    unfold lenZ. replace (Z.to_nat (1 + Z.of_nat (length R))) with (S (length R)) by lia.
    cbn [skipn]. rewrite skipn_app, skipn_all, Nat.sub_diag. reflexivity.
  Qed.

  (* The whole function, for token boundaries that are ordered and inside the body:
     - it never panics (all slice indices are in range);
     - the new text is '=' followed by [spec_tail]: everything outside the touched tokens
       is copied, every touched token is replaced by [cycle_token_text] of its text;
     - either nothing was touched and text and cursor are returned unchanged, or the returned
       end position is exactly the end of the last cycled token: what follows it in the new
       text is what followed that token in the old one; a collapsed cursor stays collapsed. *)
  Theorem cycle_reference_spec body start end_ toks ss se :
    0 <= start <= 1 + lenZ body -> 0 <= end_ <= 1 + lenZ body ->
    monotone 0 (lenZ body) toks ->
    (ss, se) = (if start <=? end_ then (start, end_) else (end_, start)) ->
    exists t s e,
      cycle_reference ws (EQUALS :: body) start end_ toks = Ok (t, s, e) /\
      t = EQUALS :: spec_tail body ss se 0 toks /\
      ((untouched_all ss se toks /\ t = EQUALS :: body /\ s = start /\ e = end_) \/
       (skipn (Z.to_nat e) t = skipn (Z.to_nat (last_end ss se 0 toks)) body /\
        (start = end_ -> s = e))).
  Proof.
    intros Hs He Hm Hsel. unfold cycle_reference.
    replace (lenZ (EQUALS :: body)) with (1 + lenZ body) by (unfold lenZ; cbn [length]; lia).
    replace (start >? 1 + lenZ body) with false by (symmetry; rewrite Z.gtb_ltb; apply Z.ltb_ge; lia).
    replace (end_ >? 1 + lenZ body) with false by (symmetry; rewrite Z.gtb_ltb; apply Z.ltb_ge; lia).
    cbn [orb]. rewrite <- Hsel. rewrite Z.eqb_refl.
    set (st0 := {| c_result := []; c_copied := 0; c_first := None; c_last := 0 |}).
    destruct (run_tokens_spec body ss se toks st0 ltac:(cbn; lia) Hm)
      as (st' & R1 & R2 & R3 & R4 & R5 & R6 & R7).
    rewrite R1. cbn [obind]. cbn [st0 c_result c_copied app] in R2, R3.
    destruct (c_first st') as [f|] eqn:Ef.
    - rewrite (slice_ok body (c_copied st') (lenZ body)) by lia. cbn [obind].
      rewrite (seg_to_end body (c_copied st') R4).
      assert (L : c_last st' = 1 + lenZ (c_result st')).
      { destruct (R7 (or_introl eq_refl)) as [L|L]; [congruence|exact L]. }
      destruct (start =? end_) eqn:Eq.
      + exists (EQUALS :: c_result st' ++ skipn (Z.to_nat (c_copied st')) body), (c_last st'), (c_last st').
        split; [reflexivity|]. split; [rewrite R2; reflexivity|]. right. split; [|reflexivity].
        rewrite L, skipn_past, R3. reflexivity.
      + exists (EQUALS :: c_result st' ++ skipn (Z.to_nat (c_copied st')) body), f, (c_last st').
        split; [reflexivity|]. split; [rewrite R2; reflexivity|]. right. split.
        * rewrite L, skipn_past, R3. reflexivity.
        * intro E. apply Z.eqb_neq in Eq. contradiction.
    - exists (EQUALS :: body), start, end_. split; [reflexivity|].
      assert (U := R6 eq_refl). rewrite (spec_tail_untouched body ss se 0 toks U). cbn [Z.to_nat skipn].
      split; [reflexivity|]. left. repeat split; assumption.
  Qed.

  (* text before the first touched token is copied verbatim (one unfolding of spec_tail) *)
  Theorem spec_tail_first body ss se k m r :
    touched ss se m = true ->
    spec_tail body ss se k (m :: r) =
    seg body k (t_start m) ++ cycle_token_text ws (seg body (t_start m) (t_end m)) ++ spec_tail body ss se (t_end m) r.
  Proof. intro H. cbn [spec_tail]. rewrite H. reflexivity. Qed.

  (* tokens that are not references never matter *)
  Theorem run_tokens_nonref body ss se toks st :
    run_tokens ws body ss se st toks = run_tokens ws body ss se st (filter t_ref toks).
  Proof.
    revert st. induction toks as [|m r IH]; intro st; [reflexivity|]. cbn [filter].
    destruct (t_ref m) eqn:E.
    - cbn [run_tokens]. destruct (step_token ws body ss se st m); cbn [obind]; auto.
    - cbn [run_tokens]. unfold step_token at 1. rewrite E. cbn [negb obind]. apply IH.
  Qed.
End Driver.

(* ------------------------------------------------------------------------------------- *)
(* formula level: four presses, under the reparse hypothesis *)

Lemma lenZ_app (a b : text) : lenZ (a ++ b) = lenZ a + lenZ b.
Proof. unfold lenZ. rewrite app_length. lia. Qed.

Lemma lenZ_nonneg (a : text) : 0 <= lenZ a.
Proof. unfold lenZ. lia. Qed.

Lemma seg_prefix (a b : text) : seg (a ++ b) 0 (lenZ a) = a.
Proof.
  unfold seg, lenZ. rewrite Z.sub_0_r, Nat2Z.id. cbn [Z.to_nat skipn].
  rewrite firstn_app, firstn_all, Nat.sub_diag. cbn [firstn]. apply app_nil_r.
Qed.

Lemma seg_middle (a b c : text) : seg (a ++ b ++ c) (lenZ a) (lenZ a + lenZ b) = b.
Proof.
  unfold seg, lenZ. replace (Z.of_nat (length a) + Z.of_nat (length b) - Z.of_nat (length a)) with (Z.of_nat (length b)) by lia.
  rewrite !Nat2Z.id. rewrite skipn_app, skipn_all, Nat.sub_diag. cbn [skipn app].
  rewrite firstn_app, firstn_all, Nat.sub_diag. cbn [firstn]. apply app_nil_r.
Qed.

Lemma skipn_end (a b c : text) : skipn (Z.to_nat (lenZ a + lenZ b)) (a ++ b ++ c) = c.
Proof.
  unfold lenZ. replace (Z.to_nat (Z.of_nat (length a) + Z.of_nat (length b))) with (length (a ++ b)) by (rewrite app_length; lia).
  rewrite app_assoc, skipn_app, skipn_all, Nat.sub_diag. reflexivity.
Qed.

Section Formula.
  Variable ws : Z -> bool.

  (* the reparse hypothesis, made explicit as the token list handed to the model: the only
     reference token the lexer reports is [tok], right after [pre] *)
  Definition one_ref (pre tok : text) : list mtoken :=
    [{| t_ref := true; t_start := lenZ pre; t_end := lenZ pre + lenZ tok |}].

  Definition press (pre post tok : text) (c : Z) : outcome (text * Z * Z) :=
    cycle_reference ws (EQUALS :: pre ++ tok ++ post) c c (one_ref pre tok).

  Definition token_end (pre tok : text) : Z := 1 + lenZ pre + lenZ tok.

  (* one press with a collapsed cursor anywhere on (or at the edge of) the token *)
  Lemma press_single pre post tok c :
    1 + lenZ pre <= c <= token_end pre tok ->
    press pre post tok c =
    Ok (EQUALS :: pre ++ cycle_token_text ws tok ++ post,
        token_end pre (cycle_token_text ws tok), token_end pre (cycle_token_text ws tok)).
  Proof.
    unfold token_end. intro Hc. unfold press, cycle_reference, one_ref.
    assert (P1 := lenZ_nonneg pre). assert (P2 := lenZ_nonneg tok). assert (P3 := lenZ_nonneg post).
    replace (lenZ (EQUALS :: pre ++ tok ++ post)) with (1 + lenZ pre + lenZ tok + lenZ post)
      by (unfold lenZ; cbn [length]; rewrite !app_length; lia).
    replace (c >? 1 + lenZ pre + lenZ tok + lenZ post) with false by (symmetry; rewrite Z.gtb_ltb; apply Z.ltb_ge; lia).
    cbn [orb]. rewrite Z.leb_refl, Z.eqb_refl, Z.eqb_refl. cbn [run_tokens].
    set (m := {| t_ref := true; t_start := lenZ pre; t_end := lenZ pre + lenZ tok |}).
    set (st0 := {| c_result := []; c_copied := 0; c_first := None; c_last := 0 |}).
    assert (Ht : touched c c m = true).
    { unfold touched, m. cbn [t_ref t_start t_end andb]. rewrite !Z.max_l by lia.
      replace (lenZ pre + 1 >? c) with false by (symmetry; rewrite Z.gtb_ltb; apply Z.ltb_ge; lia).
      replace (c >? lenZ pre + lenZ tok + 1) with false by (symmetry; rewrite Z.gtb_ltb; apply Z.ltb_ge; lia).
      reflexivity. }
    rewrite (step_token_touched ws (pre ++ tok ++ post) c c st0 m Ht); cbn [st0 m c_copied t_start t_end]; try lia.
    2:{ rewrite !lenZ_app. lia. }
    cbn [obind touched_state c_first c_result c_copied c_last app].
    rewrite seg_prefix, seg_middle. subst st0 m. cbn [c_first c_result t_end app].
    rewrite (slice_ok (pre ++ tok ++ post) (lenZ pre + lenZ tok) (lenZ (pre ++ tok ++ post))) by (rewrite ?lenZ_app; lia).
    cbn [obind]. rewrite seg_to_end by (rewrite !lenZ_app; lia). rewrite skipn_end.
    rewrite lenZ_app, <- app_assoc, Z.add_assoc. reflexivity.
  Qed.

  Hypothesis ws_ep : forall c, ep_char c = true -> ws c = false.

  (* Four presses restore the formula (reference part upper-cased) and leave the cursor at
     the end of the reference — PROVIDED every intermediate text lexes with the cycled token
     as its reference token at the same place (the token lists [one_ref pre tok_i] handed to
     the four calls). Partial: the hypothesis is about the lexer, which is not modelled; it
     is false for `=A1:OFFSET(..)` (see [period_refuted_range_operator]). *)
  Theorem formula_period_partial pre post blanks pfx r c0 :
    forallb ws blanks = true -> prefix_shape pfx -> hd_sat ws pfx = false -> ref_shape r ->
    let tok := fun i => iter i (cycle_token_text ws) (blanks ++ pfx ++ r) in
    1 + lenZ pre <= c0 <= token_end pre (tok 0%nat) ->
    let c := fun i => token_end pre (tok i) in
    press pre post (tok 0%nat) c0 = Ok (EQUALS :: pre ++ tok 1%nat ++ post, c 1%nat, c 1%nat) /\
    press pre post (tok 1%nat) (c 1%nat) = Ok (EQUALS :: pre ++ tok 2%nat ++ post, c 2%nat, c 2%nat) /\
    press pre post (tok 2%nat) (c 2%nat) = Ok (EQUALS :: pre ++ tok 3%nat ++ post, c 3%nat, c 3%nat) /\
    press pre post (tok 3%nat) (c 3%nat) =
      Ok (EQUALS :: pre ++ (blanks ++ pfx ++ upper r) ++ post,
          token_end pre (blanks ++ pfx ++ upper r), token_end pre (blanks ++ pfx ++ upper r)).
  Proof.
    intros Hb Hp Hh Hr tok Hc c.
    assert (E4 : cycle_token_text ws (tok 3%nat) = blanks ++ pfx ++ upper r).
    { rewrite <- (token_period4 ws ws_ep blanks pfx r Hb Hp Hh Hr). unfold tok.
      rewrite (iter_token ws ws_ep 3 blanks pfx r Hb Hp Hh Hr).
      rewrite (iter_token ws ws_ep 4 blanks pfx r Hb Hp Hh Hr).
      assert (R3 : ref_shape (iter 3 cycle_parts r)).
      { cbn [iter]. repeat apply ref_shape_closed. exact Hr. }
      rewrite (token_cycle ws ws_ep blanks pfx _ Hb Hp Hh R3). reflexivity. }
    assert (B : forall t, 1 + lenZ pre <= token_end pre t <= token_end pre t).
    { intro t. unfold token_end. pose proof (lenZ_nonneg t). lia. }
    repeat split.
    - exact (press_single pre post (tok 0%nat) c0 Hc).
    - exact (press_single pre post (tok 1%nat) (c 1%nat) (B _)).
    - exact (press_single pre post (tok 2%nat) (c 2%nat) (B _)).
    - rewrite (press_single pre post (tok 3%nat) (c 3%nat) (B _)), E4. reflexivity.
  Qed.
End Formula.

(* ---- F04: without the reparse hypothesis the period claim is false ------------------------
   =A1:OFFSET(B1,1,1) with the cursor on A1. The two token lists are the implementation's
   (the harness replays exactly this case on every run): the body lexes to Reference[0,2)
   Colon Ident ( Reference[10,12) , Number , Number ), and after one press the body
   $A$1:OFFSET(B1,1,1) lexes to a single Illegal token [0,19). Further presses change nothing:
   the text stays =$A$1:OFFSET(B1,1,1), which is not the original up to case. *)
Definition f04_formula : text := [61; 65; 49; 58; 79; 70; 70; 83; 69; 84; 40; 66; 49; 44; 49; 44; 49; 41].
Definition f04_tokens0 : list mtoken :=
  [ {| t_ref := true; t_start := 0; t_end := 2 |}; {| t_ref := false; t_start := 2; t_end := 3 |};
    {| t_ref := false; t_start := 3; t_end := 9 |}; {| t_ref := false; t_start := 9; t_end := 10 |};
    {| t_ref := true; t_start := 10; t_end := 12 |}; {| t_ref := false; t_start := 12; t_end := 13 |};
    {| t_ref := false; t_start := 13; t_end := 14 |}; {| t_ref := false; t_start := 14; t_end := 15 |};
    {| t_ref := false; t_start := 15; t_end := 16 |}; {| t_ref := false; t_start := 16; t_end := 17 |} ].
Definition f04_tokens1 : list mtoken := [ {| t_ref := false; t_start := 0; t_end := 19 |} ].
Definition f04_stuck : text := [61; 36; 65; 36; 49; 58; 79; 70; 70; 83; 69; 84; 40; 66; 49; 44; 49; 44; 49; 41].

Theorem period_refuted_range_operator :
  exists formula toks0 toks1 c stuck,
    cycle_reference f4_ws formula c c toks0 = Ok (stuck, 5, 5) /\
    cycle_reference f4_ws stuck 5 5 toks1 = Ok (stuck, 5, 5) /\
    upper stuck <> upper formula.
Proof.
  exists f04_formula, f04_tokens0, f04_tokens1, 2, f04_stuck.
  split; [vm_compute; reflexivity|]. split; [vm_compute; reflexivity|].
  vm_compute. discriminate.
Qed.
