(* Base/Dec.v — decimal printing of non-negative integers ([format!("{}", n)]) and the
   digit-string reader ([str::parse::<i32>] restricted to digit strings), with the
   round-trip lemma used by every reference codec. *)
From IronCalc Require Import Base.Prelude.

(* value of a digit string, most significant first; no validation *)
Fixpoint dec_val (acc : Z) (s : text) : Z :=
  match s with
  | [] => acc
  | c :: r => dec_val (acc * 10 + (c - 48)) r
  end.

Definition all_digits (s : text) : bool := forallb is_digit s.

(* digits of n, with fuel; fuel = S (log2 n) always suffices *)
Fixpoint dec_fuel (f : nat) (n : Z) : text :=
  match f with
  | O => []
  | S f' => if n <? 10 then [48 + n] else dec_fuel f' (n / 10) ++ [48 + n mod 10]
  end.

Definition dec_of_nonneg (n : Z) : text := dec_fuel (S (Z.to_nat (Z.log2 n))) n.

(* format!("{}", z) for any integer *)
Definition dec_of_Z (z : Z) : text :=
  if z <? 0 then 45 :: dec_of_nonneg (- z) else dec_of_nonneg z.

Lemma dec_val_app acc a b : dec_val acc (a ++ b) = dec_val (dec_val acc a) b.
Proof. revert acc; induction a as [|c a IH]; intro acc; cbn [app dec_val]; [reflexivity | apply IH]. Qed.

Lemma dec_fuel_val f n : 0 <= n -> n < 2 ^ Z.of_nat f -> dec_val 0 (dec_fuel f n) = n.
Proof.
  revert n; induction f as [|f IH]; intros n H0 Hlt.
  - change (Z.of_nat 0) with 0 in Hlt. rewrite Z.pow_0_r in Hlt. cbn [dec_fuel dec_val]. lia.
  - cbn [dec_fuel]. destruct (n <? 10) eqn:E.
    + apply Z.ltb_lt in E. cbn [dec_val]. lia.
    + apply Z.ltb_ge in E. rewrite dec_val_app. cbn [dec_val].
      rewrite IH.
      * pose proof (Z.div_mod n 10 ltac:(lia)). lia.
      * apply Z.div_pos; lia.
      * rewrite Nat2Z.inj_succ, Z.pow_succ_r in Hlt by lia.
        apply Z.div_lt_upper_bound; lia.
Qed.

Lemma dec_fuel_digits f n : 0 <= n -> all_digits (dec_fuel f n) = true.
Proof.
  revert n; induction f as [|f IH]; intros n H0; cbn [dec_fuel]; [reflexivity|].
  destruct (n <? 10) eqn:E.
  - apply Z.ltb_lt in E. unfold all_digits, is_digit; cbn [forallb].
    rewrite andb_true_r. apply andb_true_iff; split; [apply Z.leb_le | apply Z.leb_le]; lia.
  - unfold all_digits. rewrite forallb_app. apply andb_true_iff; split.
    + apply IH. apply Z.div_pos; lia.
    + cbn [forallb]. rewrite andb_true_r. unfold is_digit.
      pose proof (Z.mod_pos_bound n 10 ltac:(lia)).
      apply andb_true_iff; split; apply Z.leb_le; lia.
Qed.

Lemma log2_fuel n : 0 <= n -> n < 2 ^ Z.of_nat (S (Z.to_nat (Z.log2 n))).
Proof.
  intro H. rewrite Nat2Z.inj_succ, Z2Nat.id by apply Z.log2_nonneg.
  destruct (Z.eq_dec n 0) as [->|Hn]; [cbn; lia|].
  apply Z.log2_spec. lia.
Qed.

Lemma dec_of_nonneg_val n : 0 <= n -> dec_val 0 (dec_of_nonneg n) = n.
Proof. intro H. unfold dec_of_nonneg. apply dec_fuel_val; [exact H | apply log2_fuel; exact H]. Qed.

Lemma dec_of_nonneg_digits n : 0 <= n -> all_digits (dec_of_nonneg n) = true.
Proof. intro H. apply dec_fuel_digits; exact H. Qed.

Lemma dec_fuel_nonempty f n : dec_fuel (S f) n <> [].
Proof. cbn [dec_fuel]. destruct (n <? 10); [discriminate|]. destruct (dec_fuel f (n / 10)); discriminate. Qed.

Lemma dec_of_nonneg_nonempty n : dec_of_nonneg n <> [].
Proof. apply dec_fuel_nonempty. Qed.
