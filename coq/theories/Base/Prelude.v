(* Base/Prelude.v — shared vocabulary of the IronCalc models.
   Text is a list of Unicode scalar values (Z); model functions that can fail return
   [outcome]: [Ok] mirrors a normal return, [Err] a Rust [Err]/[None], [Panic] an abort
   (index out of bounds, overflow in a checked build, unwrap on None). *)
From Coq Require Export List ZArith Lia Bool.
Export ListNotations.
Open Scope Z_scope.

Definition char := Z.
Definition text := list Z.

Inductive outcome (A : Type) : Type :=
| Ok (a : A)
| Err
| Panic.
Arguments Ok {A} a.
Arguments Err {A}.
Arguments Panic {A}.

Definition obind {A B} (o : outcome A) (f : A -> outcome B) : outcome B :=
  match o with Ok a => f a | Err => Err | Panic => Panic end.

Definition LAST_COLUMN : Z := 16384.
Definition LAST_ROW : Z := 1048576.

Definition is_digit (c : Z) : bool := (48 <=? c) && (c <=? 57).
Definition is_upper (c : Z) : bool := (65 <=? c) && (c <=? 90).
Definition is_lower (c : Z) : bool := (97 <=? c) && (c <=? 122).
Definition is_ascii (c : Z) : bool := (0 <=? c) && (c <? 128).
Definition to_ascii_upper (c : Z) : Z := if is_lower c then c - 32 else c.

Fixpoint text_eqb (a b : text) : bool :=
  match a, b with
  | [], [] => true
  | x :: a', y :: b' => (x =? y) && text_eqb a' b'
  | _, _ => false
  end.

Lemma text_eqb_eq a b : text_eqb a b = true <-> a = b.
Proof.
  revert b; induction a as [|x a IH]; intros [|y b]; cbn [text_eqb]; split; intro H;
    try congruence; try reflexivity.
  - apply andb_true_iff in H as [H1 H2]. apply Z.eqb_eq in H1. apply IH in H2. congruence.
  - inversion H; subst. rewrite Z.eqb_refl. apply IH. reflexivity.
Qed.

Lemma text_eqb_refl a : text_eqb a a = true.
Proof. apply text_eqb_eq. reflexivity. Qed.
