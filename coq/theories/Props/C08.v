(* Props/C08.v — No cell ever stores a non-finite number.  Statements only.
   The claim covers all built-in functions because it is about the SINK every result goes
   through (set_cells_with_result = [write]), not about the functions.
   History: the array branches and the 1x1 coercion (F09, F09b) were repaired by /repo e9b497e, the
   typed path (F08, F08c) by /repo 6e3cec0; the former refutations are the examples at the end.
   What this file does NOT cover, and what is still violated in the implementation: the public API
   Model::update_cell_with_number, which stores the f64 it is given (F08b), and the xlsx importer,
   which stores a non-finite <v> (F08d).  Neither goes through [write] or [type_number]; both are
   reported by the harness (known classes api_number_unchecked, xlsx_import_nonfinite). *)
From IronCalc Require Import Base.Prelude Eval.NumOps Eval.Value Eval.Coerce Eval.Ops Eval.Funs
  Eval.Eval Eval.Store Eval.StoreProofs Eval.SinkProofs.

(* the property for the two paths a user reaches through formulas and typing: whatever result
   reaches the sink, and whatever text is typed, a store free of non-finite numbers stays so *)
Definition C08_statement : Prop :=
  forall num (N : NumOps num), nis_finite N (nzero N) = true ->
  (forall c cell r st st', write N c cell r st = Some st' -> finite_store N st -> finite_store N st') /\
  (forall c t st, finite_store N st -> finite_store N (type_number N c t st)).

(* THE SINK THEOREM: for EVERY result r, scalar or array, in every branch (scalar, dynamic spill,
   CSE fill, 1x1 coercion).  The one law of the number type: 0 is finite *)
Theorem C08_sink :
  forall num (N : NumOps num), nis_finite N (nzero N) = true ->
  forall c cell r st st', write N c cell r st = Some st' -> finite_store N st -> finite_store N st'.
Proof. exact (@write_finite). Qed.
Print Assumptions C08_sink.

(* the typed path, for every text *)
Theorem C08_typed :
  forall num (N : NumOps num) c t st, finite_store N st -> finite_store N (type_number N c t st).
Proof. exact (@type_number_finite). Qed.
Print Assumptions C08_typed.

(* hence the statement *)
Theorem C08_holds : C08_statement.
Proof. exact (fun num N H0 => conj (@write_finite num N H0) (@type_number_finite num N)). Qed.
Print Assumptions C08_holds.

(* the scalar branch alone (the original safety belt) *)
Theorem C08_scalar :
  forall num (N : NumOps num), nis_finite N (nzero N) = true ->
  forall c cell r st st', ~ is_array r -> write N c cell r st = Some st' -> finite_store N st -> finite_store N st'.
Proof. exact (@write_scalar_branch_finite). Qed.
Print Assumptions C08_scalar.

(* the former refutations, now examples (bounded toy numbers, overflow = non-finite):
   ={MAX,1}*10 as a dynamic formula and as a CSE formula, the 1x1 coercion, the scalar form, typing *)
Example C08_array_dynamic_guarded :
  no_nonfinite_b BOps [A1; mkref 0 1 2] (evaluate BOps [A1] wb_array) = true /\
  value_at (evaluate BOps [A1] wb_array) A1 = VErr ENUM /\ value_at (evaluate BOps [A1] wb_array) (mkref 0 1 2) = VNum (Some 10).
Proof. exact guarded_array_dynamic. Qed.
Example C08_array_cse_guarded :
  no_nonfinite_b BOps [A1; mkref 0 1 2] (evaluate BOps [A1] wb_cse) = true /\
  value_at (evaluate BOps [A1] wb_cse) A1 = VErr ENUM /\ value_at (evaluate BOps [A1] wb_cse) (mkref 0 1 2) = VNum (Some 10).
Proof. exact guarded_array_cse. Qed.
Example C08_coerce_1x1_guarded :
  no_nonfinite_b BOps [A1] (evaluate BOps [A1] wb_1x1) = true /\ value_at (evaluate BOps [A1] wb_1x1) A1 = VErr ENUM.
Proof. exact guarded_coerce_1x1. Qed.
Example C08_scalar_guard_works : value_at (evaluate BOps [A1] wb_scalar) A1 = VErr ENUM.
Proof. exact scalar_guard_example. Qed.
Example C08_typed_overflow_is_text :
  cont (type_number BOps A1 [57;57;57;57;57;57;57] (store_of [])) A1 = CString [57;57;57;57;57;57;57] /\
  no_nonfinite_b BOps [A1] (type_number BOps A1 [57;57;57;57;57;57;57] (store_of [])) = true /\
  cont (type_number BOps A1 [57;57] (store_of [])) A1 = CNumber (Some 99).
Proof. exact typed_overflow_is_text. Qed.
