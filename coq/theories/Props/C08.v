(* Props/C08.v — No cell ever stores a non-finite number.  Statements only.
   The claim covers all built-in functions because it is about the SINKS, not about the functions:
   a number becomes the content of a cell through exactly four entry points, each modelled in
   Eval/Store.v and each proved to keep a store free of non-finite numbers:
     (1) set_cells_with_result = [write]   — every formula result, scalar or array  (C08_sink)
     (2) set_user_input's number path = [type_number]                               (C08_typed)
     (3) the public API Model::update_cell_with_number = [api_set_number]           (C08_api)
     (4) the xlsx importer's <v> conversion = [import_number] / [import_cell]       (C08_import)
   That these are ALL the construction sites of a numeric cell value is tied by the source inventory
   of lib/c08.py (a new site is a broken tie); undo/redo and paste copy cells that are already stored.
   History: all were violated when this file was first written — (1) array branches and 1x1 coercion
   (F09, F09b; /repo e9b497e), (2) F08, F08c (/repo 6e3cec0), (3) F08b (/repo 0aeb22c), (4) F08d
   (/repo 3c03706).  The former refutations are the examples at the end; the oracle classes stay live,
   so a regression of any guard is a VIOLATION. *)
From IronCalc Require Import Base.Prelude Eval.NumOps Eval.Value Eval.Coerce Eval.Ops Eval.Funs
  Eval.Eval Eval.Store Eval.StoreProofs Eval.SinkProofs.

(* the property: whatever result reaches the sink, whatever text is typed, whatever float the API is
   given and whatever a file contains, a store free of non-finite numbers stays so *)
Definition C08_statement : Prop :=
  forall num (N : NumOps num), nis_finite N (nzero N) = true ->
  (forall c cell r st st', write N c cell r st = Some st' -> finite_store N st -> finite_store N st') /\
  (forall c t st, finite_store N st -> finite_store N (type_number N c t st)) /\
  (forall c v st st', api_set_number N c v st = Some st' -> finite_store N st -> finite_store N st') /\
  (forall c k t st, finite_store N st -> finite_store N (import_cell N c k t st)).

(* THE SINK THEOREM: for EVERY result r, scalar or array, in every branch (scalar, dynamic spill,
   CSE fill, 1x1 coercion).  The one law of the number type: 0 is finite *)
Theorem C08_sink :
  forall num (N : NumOps num), nis_finite N (nzero N) = true ->
  forall c cell r st st', write N c cell r st = Some st' -> finite_store N st -> finite_store N st'.
Proof. exact (@write_finite). Qed.
Print Assumptions C08_sink.

(* the typed path, for every text *)
Theorem C08_typed :
  forall num (N : NumOps num) c t st, finite_store N st -> finite_store N (type_number N c t st).
Proof. exact (@type_number_finite). Qed.
Print Assumptions C08_typed.

(* the API write: a non-finite value is refused (nothing is written), a finite one stored *)
Theorem C08_api :
  forall num (N : NumOps num) c v st st',
  api_set_number N c v st = Some st' -> finite_store N st -> finite_store N st'.
Proof. exact (@api_set_number_finite). Qed.
Print Assumptions C08_api.
Theorem C08_api_rejects :
  forall num (N : NumOps num) c v st, nis_finite N v = false -> api_set_number N c v st = None.
Proof. exact (@api_set_number_rejects). Qed.
Print Assumptions C08_api_rejects.

(* the importer: the number read from <v> is finite whatever the text, at all three sites *)
Theorem C08_import_number :
  forall num (N : NumOps num), nis_finite N (nzero N) = true -> forall t, nis_finite N (import_number N t) = true.
Proof. exact (@import_number_finite). Qed.
Print Assumptions C08_import_number.
Theorem C08_import :
  forall num (N : NumOps num), nis_finite N (nzero N) = true ->
  forall c k t st, finite_store N st -> finite_store N (import_cell N c k t st).
Proof. exact (@import_cell_finite). Qed.
Print Assumptions C08_import.

(* hence the statement *)
Theorem C08_holds : C08_statement.
Proof. exact (fun num N H0 => conj (@write_finite num N H0) (conj (@type_number_finite num N)
                (conj (@api_set_number_finite num N) (@import_cell_finite num N H0)))). Qed.
Print Assumptions C08_holds.

(* the scalar branch alone (the original safety belt) *)
Theorem C08_scalar :
  forall num (N : NumOps num), nis_finite N (nzero N) = true ->
  forall c cell r st st', ~ is_array r -> write N c cell r st = Some st' -> finite_store N st -> finite_store N st'.
Proof. exact (@write_scalar_branch_finite). Qed.
Print Assumptions C08_scalar.

(* the former refutations, now examples (bounded toy numbers, overflow = non-finite):
   ={MAX,1}*10 as a dynamic formula and as a CSE formula, the 1x1 coercion, the scalar form, typing *)
Example C08_array_dynamic_guarded :
  no_nonfinite_b BOps [A1; mkref 0 1 2] (evaluate BOps [A1] wb_array) = true /\
  value_at (evaluate BOps [A1] wb_array) A1 = VErr ENUM /\ value_at (evaluate BOps [A1] wb_array) (mkref 0 1 2) = VNum (Some 10).
Proof. exact guarded_array_dynamic. Qed.
Example C08_array_cse_guarded :
  no_nonfinite_b BOps [A1; mkref 0 1 2] (evaluate BOps [A1] wb_cse) = true /\
  value_at (evaluate BOps [A1] wb_cse) A1 = VErr ENUM /\ value_at (evaluate BOps [A1] wb_cse) (mkref 0 1 2) = VNum (Some 10).
Proof. exact guarded_array_cse. Qed.
Example C08_coerce_1x1_guarded :
  no_nonfinite_b BOps [A1] (evaluate BOps [A1] wb_1x1) = true /\ value_at (evaluate BOps [A1] wb_1x1) A1 = VErr ENUM.
Proof. exact guarded_coerce_1x1. Qed.
Example C08_scalar_guard_works : value_at (evaluate BOps [A1] wb_scalar) A1 = VErr ENUM.
Proof. exact scalar_guard_example. Qed.
Example C08_typed_overflow_is_text :
  cont (type_number BOps A1 [57;57;57;57;57;57;57] (store_of [])) A1 = CString [57;57;57;57;57;57;57] /\
  no_nonfinite_b BOps [A1] (type_number BOps A1 [57;57;57;57;57;57;57] (store_of [])) = true /\
  cont (type_number BOps A1 [57;57] (store_of [])) A1 = CNumber (Some 99).
Proof. exact typed_overflow_is_text. Qed.
Example C08_api_import_examples :
  api_set_number BOps A1 None (store_of []) = None /\
  cont (import_cell BOps A1 ImpNumberCell (Some [57;57;57;57;57;57;57]) (store_of [])) A1 = CNumber (Some 0) /\
  cont (import_cell BOps A1 ImpNumberCell (Some [57;57]) (store_of [])) A1 = CNumber (Some 99) /\
  cont (import_cell BOps A1 ImpNumberCell None (store_of [])) A1 = CNumber (Some 0).
Proof. exact api_import_examples. Qed.
