(* Props/C08.v — No cell ever stores a non-finite number.  Statements only.
   The claim covers all built-in functions because it is about the SINK every result goes
   through (set_cells_with_result = [write]), not about the functions. *)
From IronCalc Require Import Base.Prelude Eval.NumOps Eval.Value Eval.Coerce Eval.Ops Eval.Funs
  Eval.Eval Eval.Store Eval.StoreProofs Eval.SinkProofs.

(* full strength: whatever result reaches the sink, and whatever text is typed, a store free
   of non-finite numbers stays so.  The first conjunct is FALSE of the faithful model (array sinks,
   refutations below); the second one holds since /repo 6e3cec0 (C08_typed). *)
Definition C08_statement : Prop :=
  forall num (N : NumOps num), nis_finite N (nzero N) = true ->
  (forall c cell r st st', write N c cell r st = Some st' -> finite_store N st -> finite_store N st') /\
  (forall c t st, finite_store N st -> finite_store N (type_number N c t st)).

(* the scalar branch, for EVERY result that is not an array *)
Theorem C08_scalar :
  forall num (N : NumOps num), nis_finite N (nzero N) = true ->
  forall c cell r st st', ~ is_array r -> write N c cell r st = Some st' -> finite_store N st -> finite_store N st'.
Proof. exact (@write_scalar_branch_finite). Qed.
Print Assumptions C08_scalar.

(* every branch, excluding exactly the array results that contain a non-finite element *)
Theorem C08_partial :
  forall num (N : NumOps num), nis_finite N (nzero N) = true ->
  forall c cell r st st', result_finite N r -> write N c cell r st = Some st' -> finite_store N st -> finite_store N st'.
Proof. exact (@write_finite_partial). Qed.
Print Assumptions C08_partial.

(* the typed path, full strength (since /repo 6e3cec0: parse_number rejects non-finite values; before
   that this was C08_typed_partial and C08_refuted_typed, finding F08) *)
Theorem C08_typed :
  forall num (N : NumOps num) c t st, finite_store N st -> finite_store N (type_number N c t st).
Proof. exact (@type_number_finite). Qed.
Print Assumptions C08_typed.

(* F09: ={MAX,1}*10 as a dynamic array formula stores a non-finite number in the anchor *)
Theorem C08_refuted_array :
  no_nonfinite_b BOps [A1; mkref 0 1 2] (store_of wb_array) = true /\
  no_nonfinite_b BOps [A1; mkref 0 1 2] (evaluate BOps [A1] wb_array) = false.
Proof. exact refuted_array_dynamic. Qed.
Print Assumptions C08_refuted_array.
Theorem C08_refuted_array_cse :
  no_nonfinite_b BOps [A1; mkref 0 1 2] (store_of wb_cse) = true /\
  no_nonfinite_b BOps [A1; mkref 0 1 2] (evaluate BOps [A1] wb_cse) = false.
Proof. exact refuted_array_cse. Qed.
Print Assumptions C08_refuted_array_cse.
(* F09b: a plain formula cell whose result is a 1x1 array (reached by =SQRTPI({1E308})) *)
Theorem C08_refuted_coerce_1x1 :
  no_nonfinite_b BOps [A1] (store_of wb_1x1) = true /\
  no_nonfinite_b BOps [A1] (evaluate BOps [A1] wb_1x1) = false.
Proof. exact refuted_coerce_1x1. Qed.
Print Assumptions C08_refuted_coerce_1x1.
(* F08 (fixed): typing a number whose value overflows stores the text, a finite one the number *)
Example C08_typed_overflow_is_text :
  cont (type_number BOps A1 [57;57;57;57;57;57;57] (store_of [])) A1 = CString [57;57;57;57;57;57;57] /\
  no_nonfinite_b BOps [A1] (type_number BOps A1 [57;57;57;57;57;57;57] (store_of [])) = true /\
  cont (type_number BOps A1 [57;57] (store_of [])) A1 = CNumber (Some 99).
Proof. exact typed_overflow_is_text. Qed.

(* non-vacuity: the same overflow in scalar form is caught by the safety belt *)
Example C08_scalar_guard_works : value_at (evaluate BOps [A1] wb_scalar) A1 = VErr ENUM.
Proof. exact scalar_guard_example. Qed.
