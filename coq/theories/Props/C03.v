(* Props/C03.v — Replicas that apply the diff queue converge, for any history (with undo and
   redo) and any way of cutting the outgoing queue into batches. *)
From Coq Require Import List.
Import ListNotations.
From IronCalc Require Import UserModel.History UserModel.HistoryProofs.

Theorem C03_batching_irrelevant :
  forall (St Df : Type) (apply unapply : Df -> St -> St) (batches : list (list (qentry Df))) r,
  fold_left (replica_batch St Df apply unapply) batches r
  = replica_batch St Df apply unapply r (concat batches).
Proof. exact batching_irrelevant. Qed.
Print Assumptions C03_batching_irrelevant.

Theorem C03_replica_follows :
  forall (St Df : Type) (apply unapply : Df -> St -> St) es m sp,
  R St Df apply unapply m sp -> valid St Df apply unapply m es ->
  exists qs, queue St Df (run St Df apply unapply m es) = queue St Df m ++ qs /\
             replica_batch St Df apply unapply (st St Df m) qs = st St Df (run St Df apply unapply m es).
Proof. exact replica_follows. Qed.
Print Assumptions C03_replica_follows.

Theorem C03_replicas_converge :
  forall (St Df : Type) (apply unapply : Df -> St -> St) s0 es batches,
  valid St Df apply unapply (init St Df s0) es ->
  concat batches = queue St Df (run St Df apply unapply (init St Df s0) es) ->
  fold_left (replica_batch St Df apply unapply) batches s0
  = st St Df (run St Df apply unapply (init St Df s0) es).
Proof. exact replicas_converge. Qed.
Print Assumptions C03_replicas_converge.
