(* Props/C03.v — Replicas that apply the diff queue converge, for any history (with undo and
   redo) and any way of cutting the outgoing queue into batches. *)
From Coq Require Import List.
Import ListNotations.
From IronCalc Require Import UserModel.History UserModel.HistoryProofs.

Theorem C03_batching_irrelevant :
  forall (St Df : Type) (apply unapply : Df -> St -> St) (batches : list (list (qentry Df))) r,
  fold_left (replica_batch St Df apply unapply) batches r
  = replica_batch St Df apply unapply r (concat batches).
Proof. exact batching_irrelevant. Qed.
Print Assumptions C03_batching_irrelevant.

Theorem C03_replica_follows :
  forall (St Df : Type) (apply unapply : Df -> St -> St) es m sp,
  R St Df apply unapply m sp -> valid St Df apply unapply m es ->
  exists qs, queue St Df (run St Df apply unapply m es) = queue St Df m ++ qs /\
             replica_batch St Df apply unapply (st St Df m) qs = st St Df (run St Df apply unapply m es).
Proof. exact replica_follows. Qed.
Print Assumptions C03_replica_follows.

Theorem C03_replicas_converge :
  forall (St Df : Type) (apply unapply : Df -> St -> St) s0 es batches,
  valid St Df apply unapply (init St Df s0) es ->
  concat batches = queue St Df (run St Df apply unapply (init St Df s0) es) ->
  fold_left (replica_batch St Df apply unapply) batches s0
  = st St Df (run St Df apply unapply (init St Df s0) es).
Proof. exact replicas_converge. Qed.
Print Assumptions C03_replicas_converge.

(* The queue as the code has it: every flush EMPTIES it, batches travel separately and may be
   delivered late (in order). Whenever nothing is queued or in flight the replica equals the
   primary — at every such point of the schedule, not only at the end of the history. *)
From IronCalc Require Import UserModel.Flush UserModel.FlushProofs.

Theorem C03_converged_when_quiescent :
  forall (St Df : Type) (apply unapply : Df -> St -> St) s0 fs,
  fvalid St Df apply unapply (finit St Df s0) fs ->
  quiescent St Df (frun St Df apply unapply (finit St Df s0) fs) ->
  repl St Df (frun St Df apply unapply (finit St Df s0) fs)
  = st St Df (prim St Df (frun St Df apply unapply (finit St Df s0) fs)).
Proof. exact converged_when_quiescent. Qed.
Print Assumptions C03_converged_when_quiescent.

(* ... and a replica can always catch up: one flush and delivery of everything in flight
   brings it to exactly the state the primary had, whatever happened before. *)
Theorem C03_replica_catches_up :
  forall (St Df : Type) (apply unapply : Df -> St -> St) s0 fs,
  fvalid St Df apply unapply (finit St Df s0) fs ->
  let s := frun St Df apply unapply (finit St Df s0) fs in
  repl St Df (frun St Df apply unapply s (drain St Df s)) = st St Df (prim St Df s).
Proof. exact replica_catches_up. Qed.
Print Assumptions C03_replica_catches_up.

(* the replica is never more than "what is on its way" behind: the invariant itself *)
Theorem C03_sync_invariant :
  forall (St Df : Type) (apply unapply : Df -> St -> St) fs s,
  Sync St Df apply unapply s -> fvalid St Df apply unapply s fs ->
  Sync St Df apply unapply (frun St Df apply unapply s fs).
Proof. exact sync_run. Qed.
Print Assumptions C03_sync_invariant.

(* non-vacuity: a schedule with an undo, two flushes and a late delivery is valid, ends
   quiescent, and the replica has moved (state 1 after Do 1, Do 2, Undo) *)
From Coq Require Import ZArith.
From IronCalc Require Import UserModel.HistoryId.
Example C03_flush_schedule_nonvacuous :
  let fs := [Ev (Do 1%Z [(0, 1)%Z]); Flush; Ev (Do 2%Z [(1, 2)%Z]); Ev Undo; Deliver; Flush; Deliver] in
  fvalid Z idiff id_apply id_unapply (finit Z idiff 0%Z) fs /\
  quiescent Z idiff (frun Z idiff id_apply id_unapply (finit Z idiff 0%Z) fs) /\
  repl Z idiff (frun Z idiff id_apply id_unapply (finit Z idiff 0%Z) fs) = 1%Z.
Proof. vm_compute. repeat split. Qed.
