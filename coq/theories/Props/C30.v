(* Props/C30.v — Styles are stored and read back faithfully.
   Statements only; every proof is [exact <lemma>] into Sheet/StylesProofs.v.

   Vocabulary (Sheet/Styles.v): [styles] are the pools (num_fmts, fonts, fills, borders, cell_xfs);
   [intern] is Styles::get_style_index_or_create, which every set_cell_style / set_row_style /
   set_column_style goes through; [get_style] resolves an index; [intern_all] is a history of
   assignments.  Fonts, fills, borders and alignments are arbitrary types with an equality test of
   which only soundness is assumed (premises of the theorems).  [wf_styles]: component ids in
   range, custom format ids distinct, a custom format with a built-in id carries the built-in code,
   no record refers to an undefined custom id. *)
From IronCalc Require Import Base.Prelude Generated.NumFmts_c30 Sheet.Cols Sheet.ColsProofs Sheet.Rows
  Sheet.Styles Sheet.StylesProofs Sheet.StyleLayer Sheet.StyleLayerProofs.

Section C30.
Variables font fill border align : Type.
Variable font_eqb : font -> font -> bool.
Variable fill_eqb : fill -> fill -> bool.
Variable border_eqb : border -> border -> bool.
Variable align_eqb : align -> align -> bool.
Hypothesis font_eqb_eq : forall a b, font_eqb a b = true -> a = b.
Hypothesis fill_eqb_eq : forall a b, fill_eqb a b = true -> a = b.
Hypothesis border_eqb_eq : forall a b, border_eqb a b = true -> a = b.
Hypothesis align_eqb_eq : forall a b, align_eqb a b = true -> a = b.

Notation intern := (intern font_eqb fill_eqb border_eqb align_eqb).
Notation intern_all := (intern_all font_eqb fill_eqb border_eqb align_eqb).

(* READ-BACK: the index handed out for a style resolves to that style *)
Theorem C30_readback :
  forall (st : styles font fill border align) s st' i,
  wf_styles st -> intern st s = Ok (st', i) -> get_style st' i = Ok s.
Proof. exact (intern_readback font fill border align font_eqb fill_eqb border_eqb align_eqb font_eqb_eq fill_eqb_eq border_eqb_eq align_eqb_eq). Qed.

(* STABILITY: an assignment never changes what an existing index resolves to; pools only grow *)
Theorem C30_stable :
  forall (st : styles font fill border align) s st' i,
  wf_styles st -> intern st s = Ok (st', i) ->
  (forall k, 0 <= k < len (st_xfs st) -> get_style st' k = get_style st k) /\ extends st st'.
Proof. exact (intern_stable font fill border align font_eqb fill_eqb border_eqb align_eqb font_eqb_eq fill_eqb_eq border_eqb_eq align_eqb_eq). Qed.

(* well-formedness is an invariant, and on well-formed pools no assignment panics *)
Theorem C30_wf_preserved :
  forall (st : styles font fill border align) s st' i,
  wf_styles st -> intern st s = Ok (st', i) -> wf_styles st'.
Proof. exact (intern_wf font fill border align font_eqb fill_eqb border_eqb align_eqb font_eqb_eq fill_eqb_eq border_eqb_eq align_eqb_eq). Qed.

Theorem C30_no_panic :
  forall (st : styles font fill border align) ss, wf_styles st -> exists r, intern_all st ss = Ok r.
Proof. exact (intern_all_total font fill border align font_eqb fill_eqb border_eqb align_eqb font_eqb_eq fill_eqb_eq border_eqb_eq align_eqb_eq). Qed.

(* HISTORIES: after any sequence of assignments, every index handed out along the way resolves,
   in the final pools, to the style it was handed out for *)
Theorem C30_history_readback :
  forall (st : styles font fill border align) ss st' is,
  wf_styles st -> intern_all st ss = Ok (st', is) ->
  Forall2 (fun s i => get_style st' i = Ok s) ss is.
Proof. exact (intern_all_readback font fill border align font_eqb fill_eqb border_eqb align_eqb font_eqb_eq fill_eqb_eq border_eqb_eq align_eqb_eq). Qed.

(* NO SHARING: different styles assigned anywhere in a history never get the same index *)
Theorem C30_no_sharing :
  forall (st : styles font fill border align) ss st' is a b sa sb ia ib,
  wf_styles st -> intern_all st ss = Ok (st', is) ->
  nth_error ss a = Some sa -> nth_error is a = Some ia ->
  nth_error ss b = Some sb -> nth_error is b = Some ib ->
  sa <> sb -> ia <> ib.
Proof. exact (no_sharing font fill border align font_eqb fill_eqb border_eqb align_eqb font_eqb_eq fill_eqb_eq border_eqb_eq align_eqb_eq). Qed.

(* CELLS: Model::set_cell_style then Model::get_style_for_cell returns the style; every other cell
   reads the same index as before, and that index resolves to the same style as before *)
Theorem C30_cells :
  forall (st : styles font fill border align) s st' i l r c l',
  wf_styles st -> intern st s = Ok (st', i) -> set_cell_style l r c i = Ok l' ->
  get_style st' (get_cell_style_index l' r c) = Ok s /\
  forall r' c', (r', c') <> (r, c) ->
    get_cell_style_index l' r' c' = get_cell_style_index l r' c' /\
    (0 <= get_cell_style_index l r' c' < len (st_xfs st) ->
     get_style st' (get_cell_style_index l' r' c') = get_style st (get_cell_style_index l r' c')).
Proof. exact (cell_assignment font fill border align font_eqb fill_eqb border_eqb align_eqb font_eqb_eq fill_eqb_eq border_eqb_eq align_eqb_eq). Qed.

(* ROW CELLS: a non-default style assigned to a row is read by the row getter and by every cell of
   the row that has no style of its own — on ANY layer, i.e. whatever record the row had before
   (none; one created by set_row_height / set_row_hidden; one carrying the default style; one
   whose style was deleted) *)
Theorem C30_row_cells :
  forall (st : styles font fill border align) s st' i down l r l',
  wf_styles st -> intern st s = Ok (st', i) -> i <> 0 -> layer_set_row_style down l r i = Ok l' ->
  (exists k, Rows.get_row_style (l_rows l') r = Some k /\ get_style st' k = Ok s) /\
  forall c, get_cell_style_or_none l' r c = None -> get_style st' (get_cell_style_index l' r c) = Ok s.
Proof. exact (row_assignment font fill border align font_eqb fill_eqb border_eqb align_eqb font_eqb_eq fill_eqb_eq border_eqb_eq align_eqb_eq). Qed.

(* COLUMN CELLS: the same for columns, on any layer and any descriptor layout *)
Theorem C30_column_cells :
  forall (st : styles font fill border align) s st' i down up l c l',
  (forall w, up (down w) = w) ->
  wf_styles st -> intern st s = Ok (st', i) -> layer_set_column_style down up l c i = Ok l' ->
  (exists k, style_at (l_cols l') c = Some k /\ get_style st' k = Ok s) /\
  forall r, get_cell_style_or_none l' r c = None ->
    (match find_row r (l_rows l') with Some x => r_custom_format x = false | None => True end) ->
    get_style st' (get_cell_style_index l' r c) = Ok s.
Proof. exact (column_assignment font fill border align font_eqb fill_eqb border_eqb align_eqb font_eqb_eq fill_eqb_eq border_eqb_eq align_eqb_eq). Qed.

End C30.
Print Assumptions C30_row_cells.
Print Assumptions C30_column_cells.
Print Assumptions C30_cells.
Print Assumptions C30_readback.
Print Assumptions C30_stable.
Print Assumptions C30_wf_preserved.
Print Assumptions C30_no_panic.
Print Assumptions C30_history_readback.
Print Assumptions C30_no_sharing.

(* ROWS: the row record carries the index (Model::get_row_style resolves it: C30_readback); cells
   of the row without a style of their own read it, except that index 0 (the default style)
   switches custom_format off and the cell falls through to the column style *)
Theorem C30_rows :
  forall down l r i l',
  layer_set_row_style down l r i = Ok l' ->
  Rows.get_row_style (l_rows l') r = Some i /\
  forall c, cell_style r c (l_cells l') = None ->
    get_cell_style_index l' r c =
    if i =? 0 then match find_col c (l_cols l') with
                   | Some d => match c_style d with Some k => k | None => 0 end
                   | None => 0 end
    else i.
Proof. exact set_row_style_layer. Qed.
Print Assumptions C30_rows.

(* COLUMNS: the descriptor carries the index and the cells of the column (no own style, row
   without custom_format) read it — any descriptor layout (the C29 exclusion is gone with the
   repair of F23a) *)
Theorem C30_columns :
  forall down up, (forall w, up (down w) = w) ->
  forall l c i l',
  layer_set_column_style down up l c i = Ok l' ->
  style_at (l_cols l') c = Some i /\
  forall r, cell_style r c (l_cells l') = None ->
    (match find_row r (l_rows l') with Some x => r_custom_format x = false | None => True end) ->
    get_cell_style_index l' r c = i.
Proof. exact set_column_style_layer. Qed.
Print Assumptions C30_columns.

(* ORDER: height / width / hidden operations on any row or column, on any layer, change the style
   no cell reads *)
Theorem C30_size_ops_keep_cell_styles :
  forall down up, (forall w, up (down w) = w) ->
  forall l o r c,
  (match o with LRowHeight _ _ | LRowHidden _ _ | LColWidth _ _ | LColHidden _ _ => True | _ => False end) ->
  get_cell_style_index (step_lop down up l o) r c = get_cell_style_index l r c /\
  get_cell_style_or_none (step_lop down up l o) r c = get_cell_style_or_none l r c.
Proof. exact size_ops_keep_cell_styles. Qed.
Print Assumptions C30_size_ops_keep_cell_styles.

(* the pools of a new workbook (Styles::default) are well formed *)
Theorem C30_default_pools_wf :
  forall (font fill border align : Type) (f0 : font) (fi0 : fill) (b0 : border),
  @wf_styles font fill border align (mkStyles [] [f0] [fi0; fi0] [b0] [mkXf 0 0 0 0 0 0 false None]).
Proof. exact @default_pools_wf. Qed.
Print Assumptions C30_default_pools_wf.

(* BUILT-IN FORMATS (finite, regenerated table; vm_compute): every built-in code is stored as a
   built-in id that reads back as the same code; every built-in id resolves to a code that maps
   to an id with the same code (ids 23-36 all read "general": the lookup returns the first match) *)
Theorem C30_builtin_formats :
  forall code, In code DEFAULT_NUM_FMTS ->
  exists i, get_default_num_fmt_id code = Some i /\ get_num_fmt i [] = Ok code.
Proof. exact builtin_formats_roundtrip. Qed.
Print Assumptions C30_builtin_formats.

Theorem C30_builtin_ids :
  forall i, 0 <= i < NBUILTIN ->
  exists code j, get_num_fmt i [] = Ok code /\ get_default_num_fmt_id code = Some j /\ get_num_fmt j [] = Ok code.
Proof. exact builtin_ids_roundtrip. Qed.
Print Assumptions C30_builtin_ids.

(* FRESH IDS: a new custom format gets an id beyond the built-ins that no format of the workbook uses *)
Theorem C30_fresh_num_fmt_id :
  forall nfs, NBUILTIN <= get_new_num_fmt_index nfs /\ ~ In (get_new_num_fmt_index nfs) (map nf_id nfs).
Proof. exact new_num_fmt_index_fresh. Qed.
Print Assumptions C30_fresh_num_fmt_id.

(* the property is FALSE on pools outside wf_styles (each clause is needed) *)
Theorem C30_refuted_shadowed_builtin_id :
  exists st s st' i c, st = zdefault [mkNf 14 [100; 100; 47; 109; 109; 47; 121; 121; 121; 121]] [] /\
    znth DEFAULT_NUM_FMTS 14 = Some c /\ s = zstyle c /\
    zintern st s = Ok (st', i) /\ get_style st' i <> Ok s.
Proof. exact shadowed_builtin_refuted. Qed.
Print Assumptions C30_refuted_shadowed_builtin_id.

Theorem C30_refuted_dangling_id :
  exists st s st' i, st = zdefault [] [mkXf 0 NBUILTIN 0 0 0 0 false None] /\ s = zstyle [122; 122] /\
    zintern st s = Ok (st', i) /\ get_style st' 1 <> get_style st 1.
Proof. exact dangling_id_refuted. Qed.
Print Assumptions C30_refuted_dangling_id.

Theorem C30_refuted_duplicate_id :
  exists st s st' i, st = zdefault [mkNf 60 [97]; mkNf 60 [98]] [] /\ s = zstyle [98] /\
    zintern st s = Ok (st', i) /\ get_style st' i <> Ok s.
Proof. exact duplicate_id_refuted. Qed.
Print Assumptions C30_refuted_duplicate_id.

(* non-vacuity *)
Example C30_nonvacuous :
  let st := zdefault [] [] in
  let a := mkStyle None [48; 46; 48; 48] 0 1 0 false in
  let b := mkStyle (Some 5) [120] 7 1 0 true in
  match @intern_all Z Z Z Z Z.eqb Z.eqb Z.eqb Z.eqb st [a; b; a; zstyle [103; 101; 110; 101; 114; 97; 108]; b] with
  | Ok (st', is) =>
      is = [1; 2; 1; 0; 2] /\ st_num_fmts st' = [mkNf NBUILTIN [120]] /\ st_fonts st' = [0; 1] /\
      st_fills st' = [0; 0; 7] /\ get_style st' 2 = Ok b
  | _ => False
  end.
Proof. exact history_example. Qed.
