(* Props/C21.v — Date serial numbers and calendar dates correspond one-to-one.
   Statements only; every proof is [exact <lemma>] into Num/CivilProofs.v.
   The calendar theorems hold for ALL integers (arithmetic proofs, no finite sweep); the
   serial-number theorems are stated on the supported range 1 .. 2958465
   (1899-12-31 .. 9999-12-31), which is the property's own quantifier. *)
From IronCalc Require Import Base.Prelude Base.Dec Num.Civil Num.CivilProofs.

(* ---- the calendar: day numbers <-> valid (y, m, d), all of Z --------------------------------- *)

Theorem C21_civil_of_days_of_civil :
  forall y m d, valid_date y m d -> civil_of_days (days_of_civil y m d) = (y, m, d).
Proof. exact civil_of_days_of_civil. Qed.
Print Assumptions C21_civil_of_days_of_civil.

Theorem C21_days_of_civil_of_days :
  forall n, days_of_date (civil_of_days n) = n.
Proof. exact days_of_civil_of_days. Qed.
Print Assumptions C21_days_of_civil_of_days.

Theorem C21_civil_of_days_valid :
  forall n, match civil_of_days n with (y, m, d) => valid_date y m d end.
Proof. exact civil_of_days_valid. Qed.
Print Assumptions C21_civil_of_days_valid.

(* ---- the two bases of the code define the same numbering ---------------------------------------- *)

Theorem C21_bases_agree :
  forall n, serial_of_days (serial_days n) = n.
Proof. exact bases_agree. Qed.
Print Assumptions C21_bases_agree.

(* ---- one-to-one on the supported range -------------------------------------------------------------- *)

(* serial -> exactly one supported calendar date -> the same serial *)
Theorem C21_bijection_serial :
  forall n, 1 <= n <= 2958465 ->
  exists y m d, of_serial n = Ok (y, m, d) /\ supported_date y m d /\ to_serial y m d = Ok n.
Proof. exact to_serial_of_serial. Qed.
Print Assumptions C21_bijection_serial.

(* supported date -> serial in range -> the same date *)
Theorem C21_bijection_date :
  forall y m d, supported_date y m d ->
  exists n, to_serial y m d = Ok n /\ 1 <= n <= 2958465 /\ of_serial n = Ok (y, m, d).
Proof. exact of_serial_to_serial. Qed.
Print Assumptions C21_bijection_date.

Example C21_bijection_date_nonvacuous : supported_date 2024 2 29 /\ supported_date 1899 12 31.
Proof. split; (split; [split; cbn; lia | lia]). Qed.

Theorem C21_of_serial_injective :
  forall a b t, of_serial a = Ok t -> of_serial b = Ok t -> a = b.
Proof. exact of_serial_injective. Qed.
Print Assumptions C21_of_serial_injective.

Theorem C21_out_of_range :
  forall n, n < 1 \/ 2958465 < n -> of_serial n = Err.
Proof. exact of_serial_out_of_range. Qed.
Print Assumptions C21_out_of_range.

(* date_to_serial_number has no range check: every valid date that is not supported gets a
   number that from_excel_date rejects (typed "1899-12-30" is stored as 0) *)
Theorem C21_unsupported_dates_leave_the_range :
  forall y m d n, to_serial y m d = Ok n -> ~ supported_date y m d -> of_serial n = Err.
Proof. exact to_serial_unsupported. Qed.
Print Assumptions C21_unsupported_dates_leave_the_range.

Theorem C21_bounds :
  of_serial 1 = Ok (1899, 12, 31) /\ of_serial 2958465 = Ok (9999, 12, 31) /\
  of_serial 0 = Err /\ of_serial 2958466 = Err /\
  to_serial 1899 12 31 = Ok 1 /\ to_serial 9999 12 31 = Ok 2958465 /\
  of_serial 2 = Ok (1900, 1, 1) /\
  of_serial 59 = Ok (1900, 2, 27) /\ of_serial 60 = Ok (1900, 2, 28) /\ of_serial 61 = Ok (1900, 3, 1) /\
  to_serial 1900 2 29 = Err.
Proof. exact serial_bounds. Qed.
Print Assumptions C21_bounds.

(* ---- WEEKDAY ------------------------------------------------------------------------------------------ *)

Theorem C21_weekday_period : forall n, weekday (n + 7) = weekday n.
Proof. exact weekday_period. Qed.
Print Assumptions C21_weekday_period.

Theorem C21_weekday_succ : forall n, weekday (n + 1) = weekday n mod 7 + 1.
Proof. exact weekday_succ. Qed.
Print Assumptions C21_weekday_succ.

Theorem C21_weekday_anchor : weekday 1 = 1 /\ weekday 2 = 2 /\ weekday 45000 = 4.
Proof. exact weekday_anchor. Qed.
Print Assumptions C21_weekday_anchor.

Theorem C21_weekday_types :
  forall n, 1 <= n <= 2958465 ->
  let w := weekday n in
  fn_weekday n 1 = FNum w /\
  fn_weekday n 2 = FNum ((w + 5) mod 7 + 1) /\
  fn_weekday n 3 = FNum ((w + 5) mod 7) /\
  fn_weekday n 11 = fn_weekday n 2 /\
  fn_weekday n 17 = fn_weekday n 1 /\
  (forall t, 11 <= t <= 17 -> fn_weekday n t = FNum ((w + 5 - (t - 11)) mod 7 + 1)) /\
  fn_weekday n 0 = FErrValue /\
  (forall t, t < 0 \/ 4 <= t <= 10 \/ 18 <= t -> fn_weekday n t = FErrNum).
Proof. exact fn_weekday_types. Qed.
Print Assumptions C21_weekday_types.

(* ---- DATE ---------------------------------------------------------------------------------------------- *)

(* DATE(YEAR(n), MONTH(n), DAY(n)) = n (fn_year/fn_month/fn_day are the components of of_serial) *)
Theorem C21_date_of_parts :
  forall n y m d, of_serial n = Ok (y, m, d) -> fn_date y m d = FNum n.
Proof. exact fn_date_of_serial. Qed.
Print Assumptions C21_date_of_parts.

Theorem C21_date_normalisation :
  forall y m d s, fn_date y m d = FNum s ->
  1 <= s <= 2958465 /\
  ((y = 1899 /\ m = 12 /\ d = 31 /\ s = 1) \/
   (1900 <= y <= 9999 /\
    s = serial_of_days (days_of_civil (y + (m - 1) / 12) ((m - 1) mod 12 + 1) 1 + (d - 1)))).
Proof. exact fn_date_spec. Qed.
Print Assumptions C21_date_normalisation.

Example C21_date_normalisation_nonvacuous :
  fn_date 2024 14 (-3) = FNum 45685 /\ of_serial 45685 = Ok (2025, 1, 28).
Proof. vm_compute. split; reflexivity. Qed.

(* DATE never aborts: for ALL integer arguments the result is a serial of the supported range
   or the out-of-range error (#NUM!) *)
Theorem C21_date_total :
  forall y m d,
  (exists s, fn_date y m d = FNum s /\ 1 <= s <= 2958465) \/ fn_date y m d = FErrNum.
Proof. exact fn_date_total. Qed.
Print Assumptions C21_date_total.

Theorem C21_date_never_panics :
  forall y m d, fn_date y m d <> FPanic /\ fn_date y m d <> FErrValue.
Proof. exact fn_date_never_panics. Qed.
Print Assumptions C21_date_never_panics.

(* the witnesses of the repaired finding F01 are plain #NUM! errors now *)
Theorem C21_date_astronomic_arguments :
  fn_date 2000 4000000 1 = FErrNum /\ fn_date 2000 1 100000000 = FErrNum /\
  fn_date 1900 (-4000000) 1 = FErrNum /\ fn_date 9999 12 (-100000000) = FErrNum /\
  fn_date 2000 (-2147483648) 1 = FErrNum /\ fn_date 2000 1 (-2147483648) = FErrNum.
Proof. exact fn_date_astronomic. Qed.
Print Assumptions C21_date_astronomic_arguments.

(* ---- "yyyy-mm-dd" text and typed ISO dates ------------------------------------------------------------ *)

Theorem C21_format_then_type :
  forall n, 1 <= n <= 2958465 -> exists t, fmt_iso n = Ok t /\ parse_iso t = Ok n.
Proof. exact fmt_parse_roundtrip. Qed.
Print Assumptions C21_format_then_type.

Theorem C21_typed_iso_is_to_serial :
  forall y m d, 1000 <= y <= 9999 -> 0 <= m <= 99 -> 0 <= d <= 99 ->
  parse_iso (iso_text (y, m, d)) = to_serial y m d.
Proof. exact parse_iso_text. Qed.
Print Assumptions C21_typed_iso_is_to_serial.
