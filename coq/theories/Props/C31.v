(* Props/C31.v — Dynamic-array spills are exact and never stale.
   Statements only; every proof is [exact <lemma>] into Eval/SpillProofs.v.
   Model: Eval/Spill.v (set_cells_with_result's dynamic branch, evaluate_cell's clearing of the
   previous extent, reset_dynamic_array_spills, prepare_cell_for_user_input), for every value
   type [V], every default-style function [dflt], every sheet and every result array.
   Scope: one anchor at a time with its result given (the order in which several competing anchors
   are evaluated is property C07's finding F29 and is not claimed here). *)
From IronCalc Require Import Base.Prelude Eval.Spill Eval.SpillProofs.

(* A write either fills exactly the block with the elements of the result and changes nothing
   outside it, or — when the block leaves the grid or a cell of it is blocked — shows #SPILL! in
   the anchor (extent 1x1) and changes nothing else. *)
Theorem C31_write_exact :
  forall (V : Type) (spill_err calc_err : V) (dflt : pos -> Z) (a : pos) (f s : Z)
         (arr : list (list V)) (sh sh' : sheet V),
  let wn := length (hd [] arr) in
  let w := Z.of_nat wn in
  let h := Z.of_nat (length arr) in
  1 <= w -> 1 <= h ->
  write_dynamic spill_err calc_err dflt a f s (RArray arr) sh = Ok sh' ->
  let fits := fst a + h - 1 <= LAST_ROW /\ snd a + w - 1 <= LAST_COLUMN in
  (fits /\ blocked a w h sh = false ->
     (forall i j : nat, (i < length arr)%nat -> (j < wn)%nat ->
        exists v : V, elem arr i j = Some v /\
          get sh' (fst a + Z.of_nat i, snd a + Z.of_nat j) =
          Some (if (i =? 0)%nat && (j =? 0)%nat then mkcell s (KDyn f w h v)
                else mkcell (style_at dflt sh (fst a + Z.of_nat i, snd a + Z.of_nat j))
                            (KSpill (fst a) (snd a) v)))
     /\ (forall q : pos, in_rect a w h q = false -> get sh' q = get sh q))
  /\ (~ fits \/ blocked a w h sh = true ->
     get sh' a = Some (mkcell s (KDyn f 1 1 spill_err)) /\
     (forall q : pos, q <> a -> get sh' q = get sh q)).
Proof. exact (@write_exact). Qed.
Print Assumptions C31_write_exact.

(* [blocked] in words: some cell of the block other than the anchor holds something that is
   neither empty nor one of this anchor's own spill cells *)
Theorem C31_blocked_meaning :
  forall (V : Type) (a : pos) (w h : Z) (sh : sheet V),
  blocked a w h sh = true <->
  exists q c, in_rect a w h q = true /\ q <> a /\ get sh q = Some c /\ c_k c <> KEmpty /\
              (forall v, c_k c <> KSpill (fst a) (snd a) v).
Proof. exact (@blocked_iff). Qed.
Print Assumptions C31_blocked_meaning.

(* user content (anything that would block: values, formulas, other anchors, other anchors' spill
   cells) other than the anchor itself is never modified — by the write ... *)
Theorem C31_never_overwrites :
  forall (V : Type) (spill_err calc_err : V) (dflt : pos -> Z) (a : pos) (f s : Z) (res : result V)
         (sh sh' : sheet V) (p : pos),
  write_dynamic spill_err calc_err dflt a f s res sh = Ok sh' ->
  p <> a -> blocks a (get sh p) = true -> get sh' p = get sh p.
Proof. exact (@write_never_overwrites). Qed.
Print Assumptions C31_never_overwrites.

(* ... nor by a whole evaluation step (clear the old extent's own spill cells, then write) *)
Theorem C31_never_overwrites_eval :
  forall (V : Type) (spill_err calc_err : V) (dflt : pos -> Z) (a : pos) (res : result V)
         (sh sh' : sheet V) (p : pos),
  eval_anchor spill_err calc_err dflt a res sh = Ok sh' ->
  p <> a -> blocks a (get sh p) = true -> get sh' p = get sh p.
Proof. exact (@eval_never_overwrites). Qed.
Print Assumptions C31_never_overwrites_eval.

(* the invariant (spill cells covered by their anchor's extent, extents on the grid and pairwise
   disjoint) together with fullness (every extent cell is a spill cell of its anchor) is kept by
   evaluating an anchor, a sequence of anchors in any given order, the reset before structural
   edits (any enumeration order of the HashMap) and the preparation of a cell for user input *)
Theorem C31_inv_evaluate_cell :
  forall (V : Type) (spill_err calc_err : V) (dflt : pos -> Z) (sh sh' : sheet V) (a : pos) (res : result V),
  spill_inv sh -> full sh -> eval_anchor spill_err calc_err dflt a res sh = Ok sh' ->
  spill_inv sh' /\ full sh'.
Proof. exact (@eval_anchor_inv). Qed.
Print Assumptions C31_inv_evaluate_cell.

Theorem C31_inv_evaluate_many :
  forall (V : Type) (spill_err calc_err : V) (dflt : pos -> Z) (l : list (pos * result V)) (sh sh' : sheet V),
  spill_inv sh -> full sh -> eval_anchors spill_err calc_err dflt l sh = Ok sh' ->
  spill_inv sh' /\ full sh'.
Proof. exact (@eval_anchors_inv). Qed.
Print Assumptions C31_inv_evaluate_many.

(* the write alone, from the intermediate state the clearing leaves *)
Theorem C31_inv_write :
  forall (V : Type) (spill_err calc_err : V) (dflt : pos -> Z) (sh sh' : sheet V) (a : pos) (f s : Z) (res : result V),
  spill_inv sh -> full_except a sh -> no_own a sh -> is_dyn sh a ->
  write_dynamic spill_err calc_err dflt a f s res sh = Ok sh' -> spill_inv sh' /\ full sh'.
Proof. exact (@write_dynamic_inv). Qed.
Print Assumptions C31_inv_write.

Theorem C31_inv_clear :
  forall (V : Type) (dflt : pos -> Z) (sh : sheet V) (a : pos) (c : cell V) (f w h : Z) (v : V),
  spill_inv sh -> full sh -> get sh a = Some c -> c_k c = KDyn f w h v ->
  let sh1 := clear_own_spills dflt a w h sh in
  spill_inv sh1 /\ full_except a sh1 /\ no_own a sh1 /\ get sh1 a = get sh a /\
  (forall q, is_own_spill a (get sh q) = false -> get sh1 q = get sh q).
Proof. exact (@clear_own_inv). Qed.
Print Assumptions C31_inv_clear.

Theorem C31_inv_reset :
  forall (V : Type) (uneval : V) (dflt : pos -> Z) (sh : sheet V) (order : list pos),
  NoDup order -> spill_inv sh -> full sh ->
  spill_inv (reset_spills uneval dflt order sh) /\ full (reset_spills uneval dflt order sh).
Proof. exact (@reset_spills_inv). Qed.
Print Assumptions C31_inv_reset.

Theorem C31_inv_set_user_input :
  forall (V : Type) (uneval : V) (dflt : pos -> Z) (sh sh' : sheet V) (p : pos),
  spill_inv sh -> full sh -> prepare_for_input uneval dflt p sh = Ok sh' -> spill_inv sh' /\ full sh'.
Proof. exact (@prepare_inv). Qed.
Print Assumptions C31_inv_set_user_input.

(* after the evaluation of an anchor every spill cell that names it lies inside its CURRENT
   extent and holds the corresponding element of the CURRENT result; a scalar / #SPILL! result
   leaves no spill cell of that anchor anywhere *)
Theorem C31_no_stale :
  forall (V : Type) (spill_err calc_err : V) (dflt : pos -> Z) (a : pos) (res : result V) (sh sh' : sheet V),
  spill_inv sh -> full sh -> eval_anchor spill_err calc_err dflt a res sh = Ok sh' ->
  forall (q : pos) (c : cell V) (v : V), get sh' q = Some c -> c_k c = KSpill (fst a) (snd a) v ->
  exists arr, res = RArray arr /\
    ext_of sh' a = Some (Z.of_nat (length (hd [] arr)), Z.of_nat (length arr)) /\
    in_rect a (Z.of_nat (length (hd [] arr))) (Z.of_nat (length arr)) q = true /\ q <> a /\
    elem arr (Z.to_nat (fst q - fst a)) (Z.to_nat (snd q - snd a)) = Some v.
Proof. exact (@no_stale). Qed.
Print Assumptions C31_no_stale.

(* the predicates the harness evaluates on the implementation's states decide the invariant *)
Theorem C31_monitor_exact :
  forall (V : Type) (sh : sheet V), spill_exact_b sh = true <-> spill_inv sh.
Proof. exact (fun V sh => conj (@spill_exact_b_sound V (fun _ => 0) sh) (@spill_exact_b_complete V (fun _ => 0) sh)). Qed.
Print Assumptions C31_monitor_exact.

Theorem C31_monitor_full :
  forall (V : Type) (sh : sheet V), spill_full_b sh = true <-> full sh.
Proof. exact (fun V sh => conj (@spill_full_b_sound V sh) (@spill_full_b_complete V sh)). Qed.
Print Assumptions C31_monitor_full.

(* the invariant holds initially: a sheet without array formulas *)
Theorem C31_inv_init :
  forall (V : Type) (sh : sheet V),
  (forall p c, get sh p = Some c ->
     match c_k c with KDyn _ _ _ _ | KCse _ _ _ _ | KSpill _ _ _ => False | _ => True end) ->
  spill_inv sh /\ full sh.
Proof. exact (@inv_no_arrays). Qed.
Print Assumptions C31_inv_init.

(* non-vacuity: =SEQUENCE(2,2)-like result at B2 of a sheet with a value in A1 spills; with a value
   in C3 it shows the error (values are numbers here, -1 stands for #SPILL!) *)
Example C31_example_spills :
  let sh := [((2,2), mkcell 0 (KDyn 0 1 1 0)); ((1,1), mkcell 0 (KValue 7))] in
  match eval_anchor (-1) (-2) (fun _ => 0) (2,2) (RArray [[1;2];[3;4]]) sh with
  | Ok sh' => spill_exact_b sh' && spill_full_b sh' &&
              match get sh' (3,3) with Some c => match c_k c with KSpill 2 2 4 => true | _ => false end | None => false end
  | _ => false
  end = true.
Proof. vm_compute. reflexivity. Qed.

Example C31_example_blocked :
  let sh := [((2,2), mkcell 0 (KDyn 0 1 1 0)); ((3,3), mkcell 0 (KValue 7))] in
  match eval_anchor (-1) (-2) (fun _ => 0) (2,2) (RArray [[1;2];[3;4]]) sh with
  | Ok sh' => spill_exact_b sh' &&
              match get sh' (2,2), get sh' (2,3), get sh' (3,3) with
              | Some c, None, Some d => match c_k c, c_k d with KDyn 0 1 1 (-1), KValue 7 => true | _, _ => false end
              | _, _, _ => false
              end
  | _ => false
  end = true.
Proof. vm_compute. reflexivity. Qed.
