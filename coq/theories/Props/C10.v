(* Props/C10.v — Display language and locale never change what formulas compute.
   Statements only; proofs in Syntax/LocalizeProofs.v.

   Languages and locales are instances of the parameters of the C09 development
   (Syntax/Localize.v): [names_of lang] — built from the GENERATED tables of the compiled code
   (Generated/Tables_c23.v) — is the record of leaf spellings, [m_display dot row col] the display
   text form of a locale whose decimal separator is '.' iff [dot].  Language ids are indices of
   Tables_c23.languages (en de es fr it), locales the six records of Generated/Locales_c19.v.

   The cross-language clause of the property is FALSE on the pinned tree exactly where the tables
   are not clean; each class has a witness below and the theorem holds on the complement:
     F40 / F41  two functions share a name in Spanish / French        (C10_function_names_exact)
     F61        error literals are displayed in English everywhere     (C10_error_literals_exact)
     F60        array rows are printed with '/' in comma-decimal locales, the parser wants '\'  (C10_array_rows)
     ambiguity  a user-defined function named like a built-in of the other language *)
From IronCalc Require Import Base.Prelude Codec.RefA1 Syntax.Token Syntax.Ast Syntax.Printer Syntax.Parser Syntax.Shape
  Syntax.Localize Syntax.LocalizeProofs.
From IronCalc Require Generated.Tables_c23 Generated.Locales_c19 Codec.Names Codec.NamesProofs Num.Recognise Sheet.Persist.

(* ---- the tables: all 5 languages x 6 locales are well formed (finite; vm_compute over the generated tables) *)
Theorem C10_tables_wf :
  forall lang loc, In lang all_langs -> In loc all_locales -> table_wf lang loc = true.
Proof. exact tables_wf. Qed.
Print Assumptions C10_tables_wf.

(* ... which says, per language: the built-in functions whose displayed name does not read back as
   the same function are exactly the shared names of C23 and the LAMBDA keyword *)
Theorem C10_function_names_exact :
  forall lang f, In lang all_langs -> (f < Tables_c23.n_fn)%nat ->
  (fn_ok lang f = true <-> NamesProofs.known_shadowed lang f = false /\ f <> Tables_c23.fn_lambda).
Proof. exact fn_ok_exact. Qed.
Print Assumptions C10_function_names_exact.

(* ... an error literal as stringify prints it reads back exactly when the language spells that
   error as English does *)
Theorem C10_error_literals_exact :
  forall lang e, In lang all_langs -> (e < Names.n_err)%nat ->
  (err_ok lang e = true <-> Names.error_name lang e = Names.display e).
Proof. exact err_ok_exact. Qed.
Print Assumptions C10_error_literals_exact.

(* ... the printed and the parsed array row separator differ exactly in the comma-decimal locales
   (de es fr it of the six) *)
Theorem C10_array_rows :
  (forall loc, row_sep_mismatch loc = negb (dot_of loc)) /\
  map row_sep_mismatch all_locales = [true; false; false; true; true; true].
Proof. exact (conj row_sep_exact mismatch_locales). Qed.
Print Assumptions C10_array_rows.

(* ---- typed in one language / locale, shown in another, re-entered there: the same formula ------
   [image .. (names_of l1)]: the tree is what the parser returns for some text typed in language l1;
   [names_ok .. (names_of l2)]: decidable, names-level only — every built-in function reads back in
   l2 (C10_function_names_exact), error literals are spelled as in English, arrays with several
   rows only in point-decimal locales, user function names are no built-in / boolean names of l2;
   [no_bad]: none of the three associative bare pairs (C09).  An instance of the C09 theorem. *)
Theorem C10_cross :
  forall l1 dot1 l2 dot2 row col env e,
  image (m_display dot1 row col) (names_of l1) env e = true ->
  names_ok (m_display dot2 row col) (names_of l2) e = true ->
  no_bad false e = true -> lower_stable (names_of l2) e = true ->
  parse (m_display dot2 row col) (names_of l2) env (print (m_display dot2 row col) (names_of l2) e) = Some (e, []).
Proof. exact cross_language. Qed.
Print Assumptions C10_cross.

(* in the language it was typed in, the names premise comes for free *)
Theorem C10_names_ok_of_image :
  forall m nm env e arg, image_at m nm env arg e = true -> names_ok m nm e = true.
Proof. exact (fun m nm env e arg => image_names_ok m nm env e arg). Qed.
Print Assumptions C10_names_ok_of_image.

(* the stored form (English R1C1) of a formula typed in any language reads back *)
Theorem C10_stored_form :
  forall l1 dot1 row col env e,
  image (m_display dot1 row col) (names_of l1) env e = true ->
  names_ok Persist.m_rc1 (names_of 0) e = true ->
  no_bad false e = true -> lower_stable (names_of 0) e = true ->
  parse Persist.m_rc1 (names_of 0) env (print Persist.m_rc1 (names_of 0) e) = Some (e, []).
Proof. exact stored_form_language_independent. Qed.
Print Assumptions C10_stored_form.

(* the full-strength cross-language statement is false: one witness per class *)
Theorem C10_cross_refuted_shared_name :
  image (m_display true 3 3) (names_of 0) Refuted.env1 Refuted.w_shadowed = true /\
  parse (m_display false 3 3) (names_of 2) Refuted.env1 (print (m_display false 3 3) (names_of 2) Refuted.w_shadowed) <> Some (Refuted.w_shadowed, []).
Proof. exact Refuted.shadowed_refutes. Qed.
Print Assumptions C10_cross_refuted_shared_name.

Theorem C10_cross_refuted_error_literal :
  image (m_display true 3 3) (names_of 0) Refuted.env1 Refuted.w_error = true /\
  parse (m_display false 3 3) (names_of 1) Refuted.env1 (print (m_display false 3 3) (names_of 1) Refuted.w_error) <> Some (Refuted.w_error, []).
Proof. exact Refuted.error_refutes. Qed.
Print Assumptions C10_cross_refuted_error_literal.

Theorem C10_cross_refuted_array_rows :
  image (m_display true 3 3) (names_of 0) Refuted.env1 Refuted.w_array = true /\
  parse (m_display false 3 3) (names_of 0) Refuted.env1 (print (m_display false 3 3) (names_of 0) Refuted.w_array) <> Some (Refuted.w_array, []).
Proof. exact Refuted.array_refutes. Qed.
Print Assumptions C10_cross_refuted_array_rows.

Theorem C10_cross_refuted_user_function :
  image (m_display true 3 3) (names_of 0) Refuted.env1 Refuted.w_user = true /\
  parse (m_display false 3 3) (names_of 1) Refuted.env1 (print (m_display false 3 3) (names_of 1) Refuted.w_user) <> Some (Refuted.w_user, []).
Proof. exact Refuted.user_refutes. Qed.
Print Assumptions C10_cross_refuted_user_function.

(* ---- conditional-format rules: every place a user formula is stored ---------------------------------
   add / update_conditional_formatting run cf_rule_input_to_internal over the rule: EVERY formula
   slot of EVERY rule kind (CellIs formula and formula2, Formula, the Formula thresholds of colour
   scales, data bars (min, max), icon sets and icon ratings) goes through user_formula_to_internal.
   If every slot typed in the active configuration is the display text of a tree inside the proved
   part, the rule is accepted and its stored slots are the ENGLISH prints of the same trees, slot by
   slot — whatever the language and locale. *)
Theorem C10_cf_rules_stored_in_english :
  forall m_act nm_act m_en nm_en env (r : cf_input) (es : list ast),
  Forall2 (slot_ok m_act nm_act env) (cf_slots r) es ->
  exists r', cf_rule_input_to_internal m_act nm_act m_en nm_en env r = Ok r' /\
             cf_slots r' = map (print m_en nm_en) es.
Proof. exact cf_rule_stored_in_english. Qed.
Print Assumptions C10_cf_rules_stored_in_english.

Example C10_cf_nonvacuous :
  Forall2 (slot_ok CfExample.de11 (names_of 1) Example.env1) (cf_slots CfExample.rule) [CfExample.b1; CfExample.b2] /\
  cf_rule_input_to_internal CfExample.de11 (names_of 1) CfExample.en11 (names_of 0) Example.env1 CfExample.rule
  = Ok (CfCellIs (print CfExample.en11 (names_of 0) CfExample.b1) (Some (print CfExample.en11 (names_of 0) CfExample.b2))).
Proof. exact (conj CfExample.slots_ok CfExample.stored). Qed.

(* ---- set_language / set_locale leave everything stored untouched ------------------------------- *)
Theorem C10_switch_stores :
  forall (C : Type) (valid_locale valid_lang : text -> bool)
         (evaluate : list (list text) -> list (text * option Z * text) -> text -> text -> C -> C)
         (id : text) (m m' : lmodel C),
  (set_language C valid_lang id m = Ok m' ->
     stored C m' = stored C m /\ l_cells m' = l_cells m /\ l_locale m' = l_locale m /\
     l_settings_locale m' = l_settings_locale m /\ l_language m' = id) /\
  (set_locale C valid_locale evaluate id m = Ok m' ->
     stored C m' = stored C m /\ l_language m' = l_language m /\ l_locale m' = id /\ l_settings_locale m' = id /\
     l_cells m' = evaluate (l_formulas m) (l_defnames m) id (l_language m) (l_cells m)).
Proof.
  exact (fun C vl vg ev id m m' => conj (set_language_stores C vg id m m') (set_locale_stores C vl ev id m m')).
Qed.
Print Assumptions C10_switch_stores.

(* ---- the English fall-back: texts that parse in the active language AND in English to different trees
   At the level of function names: "NAME(...)" with NAME the English name of f parses in language
   lang to another built-in g exactly for the triples of [collisions]; the list is computed from
   the tables: the only entry is French TRIM = MIRR (English TRIM is SUPPRESPACE there).  An
   English name that is no function name of lang parses there as a user function — not a parse
   error, so the fall-back of user_formula_to_internal never sees it. *)
Theorem C10_fallback :
  (forall lang f g, In lang all_langs -> (f < Tables_c23.n_fn)%nat ->
     (In (lang, f, g) collisions <-> Names.lookup lang (Names.localized 0 f) = Some g /\ g <> f)) /\
  collisions = [(3, 137, 222)]%nat /\ collisions_rev = [(3, 222, 137)]%nat /\
  (nth 3 Tables_c23.languages [] = [102; 114] /\ nth 137 Tables_c23.fn_variants [] = [84; 114; 105; 109] /\
   nth 222 Tables_c23.fn_variants [] = [77; 105; 114; 114] /\ Names.localized 0 137 = [84; 82; 73; 77] /\ Names.localized 3 222 = [84; 82; 73; 77]) /\
  map bool_reads_as_bool all_langs = [true; false; false; false; false].
Proof. exact (conj collisions_exact (conj collisions_value (conj collisions_rev_value (conj collision_names english_booleans_elsewhere)))). Qed.
Print Assumptions C10_fallback.

(* non-vacuity: =SUM(1.5,A1)&IF(TRUE,"x") typed in English at C3 satisfies every premise of C10_cross
   for German in a comma-decimal locale; there are 5 languages and 6 locales *)
Example C10_nonvacuous :
  (image (m_display true 3 3) (names_of 0) Example.env1 Example.e1 = true /\ names_ok (m_display false 3 3) (names_of 1) Example.e1 = true /\
   no_bad false Example.e1 = true /\ lower_stable (names_of 1) Example.e1 = true) /\
  length all_langs = 5%nat /\ length all_locales = 6%nat.
Proof. exact (conj Example.cross_premises (conj eq_refl eq_refl)). Qed.
