(* Props/C24.v — xlsx export then import preserves the workbook.
   PROVED here (three codecs the round trip is made of):
     (a) the string-escaping codec: escape_xml on export, the XML parser's entity resolution,
         decode_xlsx_escapes on import                                   (C24_escape_...)
     (b) the cell-type codec: which t= / <v> / <f> / cm encoding the writer chooses for every
         Cell x FormulaValue kind and what the reader makes of it        (C24_cell_...)
     (c) formula text, by reduction: the C09 round-trip theorem at the xlsx printer mode with the
         name tables of C23, and the character layer (escaped, never decoded) (C24_formula_...)
   ORACLE ONLY (harness/c24, whole-workbook comparison): styles.xml, theme, sheet properties,
   rows / columns, defined names, links, conditional formats, tables, doc props, the container.
   Statements only; every proof is [exact <lemma>].

   Full statement:  forall s, roundtrip s = Ok s   where
     roundtrip s = decode (xml_unescape (escape s)).
   The faithful model REFUTES it (C24_escape_refuted): a literal `_xHHHH` immediately followed by a
   control character forms a new `_xHHHH_` pattern with the '_' of the escaped control character. *)
From IronCalc Require Import Base.Prelude Codec.XmlEscape Codec.XmlEscapeProofs.
From IronCalc Require Import Codec.RefA1 Syntax.Token Syntax.Ast Syntax.Printer Syntax.Parser Syntax.Shape.
From IronCalc Require Import Xlsx.CellCodec Xlsx.CellCodecProofs Xlsx.FormulaText.
From IronCalc Require Generated.Tables_c23 Codec.Names.

Theorem C24_escape_refuted :
  exists s, forallb text_char_ok s = true /\ roundtrip s <> Ok s.
Proof. exact roundtrip_refuted. Qed.
Print Assumptions C24_escape_refuted.

(* the witness spelled out: "_x0041" U+0001 is written as _x0041_x0001_ and read back as Ax0001_ *)
Theorem C24_escape_witness :
  escape [95; 120; 48; 48; 52; 49; 1] = [95; 120; 48; 48; 52; 49; 95; 120; 48; 48; 48; 49; 95]
  /\ roundtrip [95; 120; 48; 48; 52; 49; 1] = Ok [65; 120; 48; 48; 48; 49; 95]
  /\ forallb text_char_ok [95; 120; 48; 48; 52; 49; 1] = true
  /\ collides [95; 120; 48; 48; 52; 49; 1] = true.
Proof. exact roundtrip_witness. Qed.
Print Assumptions C24_escape_witness.

(* every text (any length, any code points the writer can emit into XML) outside the class
   "a literal _xHHHH with a non-surrogate value followed by a control character" round-trips *)
Theorem C24_escape_partial :
  forall s, forallb text_char_ok s = true -> collides s = false -> roundtrip s = Ok s.
Proof. exact roundtrip_partial. Qed.
Print Assumptions C24_escape_partial.

(* the two layers separately *)
Theorem C24_xml_layer :
  forall s, forallb text_char_ok s = true -> xml_unescape (escape s) = Ok (xesc s).
Proof. exact xml_unescape_escape. Qed.
Print Assumptions C24_xml_layer.

Theorem C24_xlsx_layer :
  forall s, collides s = false -> decode (xesc s) = s.
Proof. exact decode_xesc. Qed.
Print Assumptions C24_xlsx_layer.

(* U+FFFE and U+FFFF are written raw although XML forbids them: the reader rejects the file *)
Theorem C24_escape_noncharacter_rejected :
  roundtrip [65; 65534] = Err /\ roundtrip [65535] = Err.
Proof. exact noncharacter_rejected. Qed.
Print Assumptions C24_escape_noncharacter_rejected.

(* non-vacuity of the partial theorem: look-alikes that ARE handled *)
Example C24_escape_partial_nonvacuous :
  collides [95; 120; 48; 48; 52; 49; 95] = false /\ roundtrip [95; 120; 48; 48; 52; 49; 95] = Ok [95; 120; 48; 48; 52; 49; 95]
  /\ collides [95; 120; 68; 56; 48; 48; 1] = false /\ roundtrip [95; 120; 68; 56; 48; 48; 1] = Ok [95; 120; 68; 56; 48; 48; 1].
Proof. vm_compute. repeat split; reflexivity. Qed.

(* ================= (b) the cell-type codec ================= *)
(* [num] is f64 with its two Rust primitives; their law is an explicit premise (checked by the
   harness on every generated number). [formula] is an opaque payload (see (c)). [here] is the
   "Sheet!A1" text the reader stores as the origin of an error value. [anchor_of c] is the reader's
   position context: Some a for a spill cell (it lies in the range of an array formula written
   before it), None otherwise. *)
Theorem C24_cell_types :
  forall (num : Type) (show_num : num -> text) (read_num : text -> num) (formula : Type) (finite : num -> bool),
  (forall n, finite n = true -> read_num (show_num n) = n) ->
  forall here (c : cell num formula),
  evaluated num formula c = true -> texts_ok num formula c = true -> ids_ok num formula c = true ->
  nums_finite num formula finite c = true ->
  exists x, enc_cell num show_num formula c = Ok x /\
            dec_cell num read_num formula (anchor_of num formula c) here x = canonical num formula here c.
Proof. exact cell_types. Qed.
Print Assumptions C24_cell_types.

(* what [canonical] changes is exactly: a colliding text (F17) and the origin / message of an error
   value (not stored in the file). Otherwise the cell comes back as is: *)
Theorem C24_cell_types_exact :
  forall (num : Type) (show_num : num -> text) (read_num : text -> num) (formula : Type) (finite : num -> bool),
  (forall n, finite n = true -> read_num (show_num n) = n) ->
  forall here (c : cell num formula),
  evaluated num formula c = true -> texts_ok num formula c = true -> ids_ok num formula c = true ->
  nums_finite num formula finite c = true -> exact num formula here c = true ->
  exists x, enc_cell num show_num formula c = Ok x /\
            dec_cell num read_num formula (anchor_of num formula c) here x = c.
Proof. exact cell_types_exact. Qed.
Print Assumptions C24_cell_types_exact.

(* kinds that do not survive *)
Theorem C24_cell_unevaluated_refuted :
  forall (num : Type) (show_num : num -> text) (formula : Type) f s,
  enc_cell num show_num formula (CFormula num formula f s (FUneval num)) = Panic.
Proof. exact unevaluated_panics. Qed.
Print Assumptions C24_cell_unevaluated_refuted.

(* #N/IMPL! is kept (F01 repaired in /repo 4a681a0; it used to come back as #ERROR!) *)
Theorem C24_cell_nimpl_kept :
  forall (num : Type) (show_num : num -> text) (read_num : text -> num) (formula : Type) here s,
  exists x, enc_cell num show_num formula (CErr num formula Names.E_NIMPL s) = Ok x /\
            dec_cell num read_num formula None here x = CErr num formula Names.E_NIMPL s.
Proof. exact nimpl_kept. Qed.
Print Assumptions C24_cell_nimpl_kept.

Theorem C24_cell_error_origin_refuted :
  forall (num : Type) (show_num : num -> text) (read_num : text -> num) (formula : Type) here f s o m,
  exists x, enc_cell num show_num formula (CFormula num formula f s (FErr num Names.E_DIV o m)) = Ok x /\
            dec_cell num read_num formula None here x = CFormula num formula f s (FErr num Names.E_DIV here (Names.display Names.E_DIV)).
Proof. exact error_origin_lost. Qed.
Print Assumptions C24_cell_error_origin_refuted.

(* a spill cell the reader does not find inside an array range comes back as a value cell *)
Theorem C24_cell_orphan_spill_refuted :
  forall (num : Type) (show_num : num -> text) (read_num : text -> num) (formula : Type) (finite : num -> bool),
  (forall n, finite n = true -> read_num (show_num n) = n) ->
  forall here s a n, finite n = true ->
  exists x, enc_cell num show_num formula (CSpill num formula s a (SNum num n)) = Ok x /\
            dec_cell num read_num formula None here x = CNum num formula n s.
Proof. exact orphan_spill_number. Qed.
Print Assumptions C24_cell_orphan_spill_refuted.

(* a non-finite number comes back as the reader's fallback (0.0 since /repo 3c03706) *)
Theorem C24_cell_nonfinite_refuted :
  forall (num : Type) (show_num : num -> text) (read_num : text -> num) (formula : Type) here s n z,
  read_num (show_num n) = z ->
  exists x, enc_cell num show_num formula (CNum num formula n s) = Ok x /\
            dec_cell num read_num formula None here x = CNum num formula z s.
Proof. exact nonfinite_number_replaced. Qed.
Print Assumptions C24_cell_nonfinite_refuted.

Theorem C24_cell_text_value_refuted :
  forall (num : Type) (show_num : num -> text) (read_num : text -> num) (formula : Type) here f s,
  exists x, enc_cell num show_num formula (CFormula num formula f s (FText num [95; 120; 48; 48; 52; 49; 1])) = Ok x /\
            dec_cell num read_num formula None here x = CFormula num formula f s (FText num [65; 120; 48; 48; 48; 49; 95]).
Proof. exact text_value_corrupted. Qed.
Print Assumptions C24_cell_text_value_refuted.

(* non-vacuity: a text-valued dynamic array anchor satisfies every premise of C24_cell_types_exact *)
Example C24_cell_types_nonvacuous :
  let c := CArray Z unit tt 3 2 2 Dynamic (FText Z [60; 38; 95]) in
  evaluated Z unit c = true /\ texts_ok Z unit c = true /\ ids_ok Z unit c = true /\ exact Z unit [83; 33; 65; 49] c = true.
Proof. vm_compute. repeat split; reflexivity. Qed.

(* ================= (c) formula text ================= *)
(* tokens: C09 at the xlsx printer mode, names from the compiled tables. Premises are C09's:
   [image] (the tree is one the parser returns; leaf spelling conditions), [no_bad true] (none of the
   three associative bad pairs 1+(2+3), 1+(2-3), 1&(2&3) left after the repair of the printer),
   [lower_stable] (F62: user function names are printed in lower case). *)
Theorem C24_formula_text :
  forall lower env row col e,
  image (xlsx_mode row col) (xlsx_names lower) env e = true ->
  no_bad true e = true ->
  lower_stable (xlsx_names lower) e = true ->
  parse (xlsx_mode row col) (xlsx_names lower) env (print (xlsx_mode row col) (xlsx_names lower) e) = Some (e, []).
Proof. exact formula_tokens_roundtrip. Qed.
Print Assumptions C24_formula_text.

(* C23's xlsx-name theorem in C09's terms: the side condition of [image] on built-in function names
   holds for EVERY built-in function (Lambda is its own node kind) *)
Theorem C24_formula_function_names :
  forall lower f, 0 <= f < Z.of_nat Tables_c23.n_fn -> f <> Z.of_nat Tables_c23.fn_lambda ->
  fun_name_ok (xlsx_names lower) f = true.
Proof. exact xlsx_fun_names_ok. Qed.
Print Assumptions C24_formula_function_names.

(* characters: escaped on export, never decoded on import *)
Theorem C24_formula_chars_partial :
  forall t, forallb text_char_ok t = true -> formula_chars_ok t = true -> formula_text_read t = Ok t.
Proof. exact formula_chars_partial. Qed.
Print Assumptions C24_formula_chars_partial.

Theorem C24_formula_chars_refuted :
  formula_text_read [34; 1; 34] = Ok [34; 95; 120; 48; 48; 48; 49; 95; 34] /\
  formula_text_read [34; 95; 120; 48; 48; 52; 49; 95; 34] = Ok [34; 95; 120; 48; 48; 53; 70; 95; 120; 48; 48; 52; 49; 95; 34].
Proof. exact formula_chars_refuted. Qed.
Print Assumptions C24_formula_chars_refuted.
