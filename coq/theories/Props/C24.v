(* Props/C24.v — xlsx export then import preserves the workbook: THE STRING-ESCAPING CODEC PART ONLY
   (escape_xml on export, the XML parser's entity resolution, decode_xlsx_escapes on import).
   The rest of C24 (cell types, formulas, styles, container) is not claimed here yet.
   Statements only; every proof is [exact <lemma>] into Codec/XmlEscapeProofs.v.

   Full statement:  forall s, roundtrip s = Ok s   where
     roundtrip s = decode (xml_unescape (escape s)).
   The faithful model REFUTES it (C24_escape_refuted): a literal `_xHHHH` immediately followed by a
   control character forms a new `_xHHHH_` pattern with the '_' of the escaped control character. *)
From IronCalc Require Import Base.Prelude Codec.XmlEscape Codec.XmlEscapeProofs.

Theorem C24_escape_refuted :
  exists s, forallb text_char_ok s = true /\ roundtrip s <> Ok s.
Proof. exact roundtrip_refuted. Qed.
Print Assumptions C24_escape_refuted.

(* the witness spelled out: "_x0041" U+0001 is written as _x0041_x0001_ and read back as Ax0001_ *)
Theorem C24_escape_witness :
  escape [95; 120; 48; 48; 52; 49; 1] = [95; 120; 48; 48; 52; 49; 95; 120; 48; 48; 48; 49; 95]
  /\ roundtrip [95; 120; 48; 48; 52; 49; 1] = Ok [65; 120; 48; 48; 48; 49; 95]
  /\ forallb text_char_ok [95; 120; 48; 48; 52; 49; 1] = true
  /\ collides [95; 120; 48; 48; 52; 49; 1] = true.
Proof. exact roundtrip_witness. Qed.
Print Assumptions C24_escape_witness.

(* every text (any length, any code points the writer can emit into XML) outside the class
   "a literal _xHHHH with a non-surrogate value followed by a control character" round-trips *)
Theorem C24_escape_partial :
  forall s, forallb text_char_ok s = true -> collides s = false -> roundtrip s = Ok s.
Proof. exact roundtrip_partial. Qed.
Print Assumptions C24_escape_partial.

(* the two layers separately *)
Theorem C24_xml_layer :
  forall s, forallb text_char_ok s = true -> xml_unescape (escape s) = Ok (xesc s).
Proof. exact xml_unescape_escape. Qed.
Print Assumptions C24_xml_layer.

Theorem C24_xlsx_layer :
  forall s, collides s = false -> decode (xesc s) = s.
Proof. exact decode_xesc. Qed.
Print Assumptions C24_xlsx_layer.

(* U+FFFE and U+FFFF are written raw although XML forbids them: the reader rejects the file *)
Theorem C24_escape_noncharacter_rejected :
  roundtrip [65; 65534] = Err /\ roundtrip [65535] = Err.
Proof. exact noncharacter_rejected. Qed.
Print Assumptions C24_escape_noncharacter_rejected.

(* non-vacuity of the partial theorem: look-alikes that ARE handled *)
Example C24_escape_partial_nonvacuous :
  collides [95; 120; 48; 48; 52; 49; 95] = false /\ roundtrip [95; 120; 48; 48; 52; 49; 95] = Ok [95; 120; 48; 48; 52; 49; 95]
  /\ collides [95; 120; 68; 56; 48; 48; 1] = false /\ roundtrip [95; 120; 68; 56; 48; 48; 1] = Ok [95; 120; 68; 56; 48; 48; 1].
Proof. vm_compute. repeat split; reflexivity. Qed.
