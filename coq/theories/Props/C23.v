(* Props/C23.v — Function and error names round-trip in every language.
   Statements only; every proof is [exact <lemma>] into Codec/NamesProofs.v.

   The tables (Generated/Tables_c23.v) are regenerated from the compiled code before this file is
   built; the quantifiers "every language" / "every function" / "every error" range over the
   indices of those tables: lang < n_lang, f < n_fn (Function::into_iter order), e < n_err
   (declaration order of enum Error). Language 0 is "en" (C23_english_first), whose tables the
   xlsx reader uses.

   Findings (the faithful model refutes two clauses of the property):
   * two functions share a name in Spanish (XNPV, RECEIVED: VNA.NO.PER) and in French
     (TBILLEQ, YIELDDISC: TAUX.ESCOMPTE.R); the first-match lookup returns the other function
     -> C23_functions_refuted, C23_no_shared_name_refuted; everything else: …_partial / …_exact
   * (F01, Error::NIMPL displayed as "#N/IMPL", is repaired in /repo 4a681a0: C23_error_display is
     now the full statement)
   * error literals inside formulas are printed with Display (English) in every language, so
     e.g. Spanish =#¡REF! is shown as =#REF!, which Spanish does not read back
     -> C23_error_literal_refuted / C23_error_literal_exact *)
From IronCalc Require Import Base.Prelude Generated.Tables_c23 Codec.Names Codec.NamesProofs.

(* ---- functions: the localized name parses back to the same function ---- *)
(* full statement [forall lang f, lookup lang (localized lang f) = Some f] is FALSE: *)
Theorem C23_functions_refuted :
  exists lang f, (lang < n_lang)%nat /\ (f < n_fn)%nat /\
    known_shadowed lang f = true /\ lookup lang (localized lang f) <> Some f.
Proof. exact functions_refuted. Qed.
Print Assumptions C23_functions_refuted.

(* it holds exactly outside the class {(es, Xnpv), (fr, Tbilleq)} *)
Theorem C23_functions_exact :
  forall lang f, (lang < n_lang)%nat -> (f < n_fn)%nat ->
  (lookup lang (localized lang f) = Some f <-> known_shadowed lang f = false).
Proof. exact functions_exact. Qed.
Print Assumptions C23_functions_exact.

Theorem C23_functions_partial :
  forall lang f, (lang < n_lang)%nat -> (f < n_fn)%nat -> known_shadowed lang f = false ->
  lookup lang (localized lang f) = Some f.
Proof. exact functions_partial. Qed.
Print Assumptions C23_functions_partial.

(* the same through the whole call path (identifier lexing, boolean names, LAMBDA, prefixes) *)
Theorem C23_call_partial :
  forall lang f, (lang < n_lang)%nat -> (f < n_fn)%nat -> known_shadowed lang f = false ->
  call lang (localized lang f) = CFn f \/ (call lang (localized lang f) = CLambda /\ f = fn_lambda).
Proof. exact call_partial. Qed.
Print Assumptions C23_call_partial.

(* the model's character-wise upper-casing is Rust's to_uppercase on every table name *)
Theorem C23_upper_is_rust_upper :
  forall lang f, (lang < n_lang)%nat -> (f < n_fn)%nat -> upper (localized lang f) = localized_upper lang f.
Proof. exact upper_table. Qed.
Print Assumptions C23_upper_is_rust_upper.

(* ---- no two functions share a name (compared as the lookup compares: upper-cased) ---- *)
Theorem C23_no_shared_name_refuted :
  exists lang f g, (lang < n_lang)%nat /\ (f < n_fn)%nat /\ (g < n_fn)%nat /\ f <> g /\
    localized lang f = localized lang g.
Proof. exact no_shared_name_refuted. Qed.
Print Assumptions C23_no_shared_name_refuted.

Theorem C23_no_shared_name_partial :
  forall lang f g, (lang < n_lang)%nat -> (f < n_fn)%nat -> (g < n_fn)%nat ->
  known_shadowed lang f = false -> known_shadowed lang g = false ->
  upper (localized lang f) = upper (localized lang g) -> f = g.
Proof. exact no_shared_name_partial. Qed.
Print Assumptions C23_no_shared_name_partial.

(* ---- the xlsx export name parses back (English tables), for every function ---- *)
Theorem C23_english_first : nth 0 languages [] = [101; 110].
Proof. exact en_is_first. Qed.
Print Assumptions C23_english_first.

Theorem C23_xlsx :
  forall f, (f < n_fn)%nat -> lookup 0 (strip_prefixes (xlsx_name f)) = Some f.
Proof. exact xlsx_strip. Qed.
Print Assumptions C23_xlsx.

(* … as the parser does it: lookup after trimming "_xlfn._xlws.", else after trimming "_xlfn." *)
Theorem C23_xlsx_resolve :
  forall f, (f < n_fn)%nat -> resolve 0 (xlsx_name f) = Some f.
Proof. exact xlsx_resolve. Qed.
Print Assumptions C23_xlsx_resolve.

Theorem C23_xlsx_call :
  forall f, (f < n_fn)%nat ->
  call 0 (xlsx_name f) = CFn f \/ (call 0 (xlsx_name f) = CLambda /\ f = fn_lambda).
Proof. exact call_xlsx. Qed.
Print Assumptions C23_xlsx_call.

(* ---- errors: the localized name is read back by the lexer, whatever follows it ---- *)
Theorem C23_errors_lex :
  forall lang e rest, (lang < n_lang)%nat -> (e < n_err)%nat ->
  lex_error lang (error_name lang e ++ rest) = Some (e, rest).
Proof. exact lex_error_roundtrip. Qed.
Print Assumptions C23_errors_lex.

(* … and by the value recogniser (get_error_by_name on the upper-cased input) *)
Theorem C23_errors_by_name :
  forall lang e, (lang < n_lang)%nat -> (e < n_err)%nat ->
  error_by_name lang (upper (error_name lang e)) = Some e /\ error_by_name lang (error_name lang e) = Some e.
Proof. exact error_by_name_roundtrip. Qed.
Print Assumptions C23_errors_by_name.

(* ---- errors: the name written to xlsx files (Display) read by get_error_by_english_name ---- *)
(* full statement, 12 of 12 errors (F01 was repaired in /repo 4a681a0: #N/IMPL! with the mark) *)
Theorem C23_error_display :
  forall e, (e < n_err)%nat -> english_lookup (display e) = Some e.
Proof. exact display_all. Qed.
Print Assumptions C23_error_display.

(* the English language names are all read back too *)
Theorem C23_error_english_names :
  forall e, (e < n_err)%nat -> english_lookup (error_name 0 e) = Some e.
Proof. exact english_names. Qed.
Print Assumptions C23_error_english_names.

(* ---- error literals inside formulas are printed with Display in every language ---- *)
(* full statement [forall lang e, lex_error lang (print_error_literal lang e) = Some (e, [])] is FALSE:
   Spanish #¡REF! is printed as #REF!, which the Spanish lexer does not read as an error *)
Theorem C23_error_literal_refuted :
  (w_lang < n_lang)%nat /\ error_name w_lang E_REF = [35; 161; 82; 69; 70; 33] /\
  print_error_literal w_lang E_REF = [35; 82; 69; 70; 33] /\
  lex_error w_lang (print_error_literal w_lang E_REF) = None.
Proof. exact literal_refuted. Qed.
Print Assumptions C23_error_literal_refuted.

(* it holds exactly for the (language, error) pairs whose localized name is the Display form *)
Theorem C23_error_literal_exact :
  forall lang e, (lang < n_lang)%nat -> (e < n_err)%nat ->
  (lex_error lang (print_error_literal lang e) = Some (e, []) <-> error_name lang e = display e).
Proof. exact literal_exact. Qed.
Print Assumptions C23_error_literal_exact.

(* the hand-written error ids of the model are the enum's declaration order *)
Theorem C23_error_ids :
  err_variants = [ [82; 69; 70]; [78; 65; 77; 69]; [86; 65; 76; 85; 69]; [68; 73; 86]; [78; 65]; [78; 85; 77];
                   [69; 82; 82; 79; 82]; [78; 73; 77; 80; 76]; [83; 80; 73; 76; 76]; [67; 65; 76; 67];
                   [67; 73; 82; 67]; [78; 85; 76; 76] ].
Proof. exact err_variants_order. Qed.
Print Assumptions C23_error_ids.

(* non-vacuity: the domains are not empty and the tables are rectangular *)
Theorem C23_sizes :
  (0 < n_lang)%nat /\ (0 < n_fn)%nat /\ n_err = 12%nat
  /\ forallb (fun l => Nat.eqb (length l) n_fn) fn_names = true
  /\ length fn_names = n_lang /\ length err_names = n_lang
  /\ length xlsx_names = n_fn /\ forallb (fun l => Nat.eqb (length l) n_fn) lookup_tbls = true.
Proof. exact sizes. Qed.
Print Assumptions C23_sizes.
