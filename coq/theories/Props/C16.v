(* Props/C16.v — Cut and paste moves meaning, copy and paste translates it.
   Statements only; every proof is [exact <lemma>] into Syntax/PrinterMovedProofs.v.

   Copy: extend_copied_value parses at the source cell and prints (stringify) at the target cell; the
   tree is the translation, so the statement is C09 at the target anchor ([C16_copy]).
   Cut: move_cell_value_to_area prints with the SECOND printer to_string_moved ([PrinterMoved.print_moved]),
   which omits almost all parentheses, hard-codes ',' and English booleans and mis-nests arrays (F05): the
   full-strength statement is refuted ([C16_cut_print_refuted_*]) and proved for the complement
   ([C16_cut_print_partial]: trees of [moved_class] without a bad pair relative to [moved_policy]). *)
From IronCalc Require Import Base.Prelude Codec.RefA1 Syntax.Token Syntax.Ast Syntax.Printer Syntax.Parser
  Syntax.Shape Syntax.PrinterMoved Syntax.PrinterMovedProofs.

(* ---- references --------------------------------------------------------------------------------- *)
(* a reference into the cut area: same sheet name, same $ flags, and — read from the target cell —
   it denotes the cell shifted by the paste delta *)
Theorem C16_cut_refs_in_area :
  forall mc s idx p, pref_in_area mc idx p = true ->
  let '(s', p') := move_ref mc s idx p in
  s' = s /\ p_abs_row p' = p_abs_row p /\ p_abs_col p' = p_abs_col p /\
  tgt_row mc (rebase mc p') = abs_row mc p + mc_drow mc /\
  tgt_col mc (rebase mc p') = abs_col mc p + mc_dcol mc.
Proof. exact cut_ref_in_area. Qed.
Print Assumptions C16_cut_refs_in_area.

(* any other reference denotes the same cell as before, and is qualified with the source sheet's name
   exactly when it had none and the paste goes to another sheet *)
Theorem C16_cut_refs_outside :
  forall mc s idx p, pref_in_area mc idx p = false ->
  let '(s', p') := move_ref mc s idx p in
  s' = qualify mc s /\ p_abs_row p' = p_abs_row p /\ p_abs_col p' = p_abs_col p /\
  tgt_row mc (rebase mc p') = abs_row mc p /\
  tgt_col mc (rebase mc p') = abs_col mc p.
Proof. exact cut_ref_outside. Qed.
Print Assumptions C16_cut_refs_outside.

Theorem C16_cut_qualification :
  forall mc s, qualify mc s = match s with
                              | Some n => Some n
                              | None => if text_eqb (mc_tgt_name mc) (mc_src_name mc) then None else Some (mc_src_name mc)
                              end.
Proof. exact qualify_spec. Qed.
Print Assumptions C16_cut_qualification.

Theorem C16_in_area_is_the_rectangle :
  forall sheet row col a, ref_is_in_area sheet row col a = true <->
  ma_sheet a = sheet /\ ma_row a <= row <= ma_row a + ma_height a - 1 /\ ma_col a <= col <= ma_col a + ma_width a - 1.
Proof. exact ref_is_in_area_spec. Qed.
Print Assumptions C16_in_area_is_the_rectangle.

(* ranges move iff both corners are inside *)
Theorem C16_cut_ranges_inside :
  forall mc s idx p1 p2, pref_in_area mc idx p1 = true -> pref_in_area mc idx p2 = true ->
  let '(s', q1, q2) := move_range mc s idx p1 p2 in
  s' = s /\
  tgt_row mc (rebase mc q1) = abs_row mc p1 + mc_drow mc /\ tgt_col mc (rebase mc q1) = abs_col mc p1 + mc_dcol mc /\
  tgt_row mc (rebase mc q2) = abs_row mc p2 + mc_drow mc /\ tgt_col mc (rebase mc q2) = abs_col mc p2 + mc_dcol mc.
Proof. exact cut_range_inside. Qed.
Print Assumptions C16_cut_ranges_inside.

Theorem C16_cut_ranges_not_inside :
  forall mc s idx p1 p2, pref_in_area mc idx p1 && pref_in_area mc idx p2 = false ->
  let '(s', q1, q2) := move_range mc s idx p1 p2 in
  s' = qualify mc s /\
  tgt_row mc (rebase mc q1) = abs_row mc p1 /\ tgt_col mc (rebase mc q1) = abs_col mc p1 /\
  tgt_row mc (rebase mc q2) = abs_row mc p2 /\ tgt_col mc (rebase mc q2) = abs_col mc p2.
Proof. exact cut_range_not_inside. Qed.
Print Assumptions C16_cut_ranges_not_inside.

(* ---- the pass over the formulas outside the cut area -------------------------------------------- *)
(* the cells get_external_formula_updates_for_cut leaves alone are exactly the cells of the cut area;
   in particular a formula on another sheet is never skipped, whatever its coordinates *)
Theorem C16_external_skipped_is_the_cut_area :
  forall a sheet row col, external_skipped a sheet row col = ref_is_in_area sheet row col a.
Proof. exact external_skipped_is_in_area. Qed.
Print Assumptions C16_external_skipped_is_the_cut_area.

Theorem C16_external_other_sheet_never_skipped :
  forall a sheet row col, sheet <> ma_sheet a -> external_skipped a sheet row col = false.
Proof. exact external_other_sheet_never_skipped. Qed.
Print Assumptions C16_external_other_sheet_never_skipped.

(* ---- copy --------------------------------------------------------------------------------------- *)
Theorem C16_copy :
  forall m_target nm env e,
  image m_target nm env e = true -> no_bad (pm_xlsx m_target) e = true -> lower_stable nm e = true ->
  parse m_target nm env (print m_target nm e) = Some (e, []).
Proof. exact copy_roundtrip. Qed.
Print Assumptions C16_copy.

Theorem C16_copy_offgrid :
  forall m nm s p, pm_rc m = false ->
  let row := if p_abs_row p then p_row p else p_row p + pm_row m in
  let col := if p_abs_col p then p_col p else p_col p + pm_col m in
  (row < 1 \/ col < 1 \/ LAST_COLUMN < col) -> print_ref m nm s p = err_tokens nm 0.
Proof. exact copy_offgrid. Qed.
Print Assumptions C16_copy_offgrid.

Theorem C16_copy_ongrid :
  forall m nm s p, pm_rc m = false ->
  let row := if p_abs_row p then p_row p else p_row p + pm_row m in
  let col := if p_abs_col p then p_col p else p_col p + pm_col m in
  1 <= row -> 1 <= col <= LAST_COLUMN ->
  print_ref m nm s p = [TReference s {| p_row := row; p_col := col; p_abs_col := p_abs_col p; p_abs_row := p_abs_row p |}].
Proof. exact copy_ongrid. Qed.
Print Assumptions C16_copy_ongrid.

(* beyond the last row there is no #REF! (F41, C12's finding, here for copies) *)
Theorem C16_copy_row_overflow_refuted :
  let m := {| pm_rc := false; pm_xlsx := false; pm_dot := true; pm_row := LAST_ROW; pm_col := 1 |} in
  let p := {| p_row := 1; p_col := 0; p_abs_col := false; p_abs_row := false |} in
  forall nm, print_ref m nm None p = [TReference None {| p_row := LAST_ROW + 1; p_col := 1; p_abs_col := false; p_abs_row := false |}].
Proof. exact copy_row_overflow_refuted. Qed.
Print Assumptions C16_copy_row_overflow_refuted.

(* ---- cut: the printed text ------------------------------------------------------------------------ *)
(* the statement at full strength: for every parser image, the pasted text parses at the target cell to
   the moved tree *)
Definition C16_cut_print : Prop :=
  forall mc dot nm env tidx e,
  image (m_tgt mc dot) nm env (move_ast mc tidx e) = true ->
  parse (m_tgt mc dot) nm env (print_moved mc dot nm e) = Some (move_ast mc tidx e, []).

Theorem C16_cut_print_refuted : ~ C16_cut_print.
Proof. exact (fun H => proj2 cut_refuted_sub_sub (H mc0 true nm_en0 env_m tidx0 _ (proj1 cut_refuted_sub_sub))). Qed.
Print Assumptions C16_cut_print_refuted.

Theorem C16_cut_print_refuted_sub_sub : cut_refutes true nm_en0 (ESum SMinus k1 (ESum SMinus k2 k3)).
Proof. exact cut_refuted_sub_sub. Qed.
Print Assumptions C16_cut_print_refuted_sub_sub.
Theorem C16_cut_print_refuted_neg_sum : cut_refutes true nm_en0 (ENeg (ESum SAdd k1 k2)).
Proof. exact cut_refuted_neg_sum. Qed.
Print Assumptions C16_cut_print_refuted_neg_sum.
Theorem C16_cut_print_refuted_pow_sum : cut_refutes true nm_en0 (EPow (ESum SAdd k1 k2) k2).
Proof. exact cut_refuted_pow_sum. Qed.
Print Assumptions C16_cut_print_refuted_pow_sum.
Theorem C16_cut_print_refuted_pow_pow : cut_refutes true nm_en0 (EPow k2 (EPow k3 k2)).
Proof. exact cut_refuted_pow_pow. Qed.
Print Assumptions C16_cut_print_refuted_pow_pow.
Theorem C16_cut_print_refuted_concat_cmp : cut_refutes true nm_en0 (EConcat k1 (ECmp CEq k2 k3)).
Proof. exact cut_refuted_concat_cmp. Qed.
Print Assumptions C16_cut_print_refuted_concat_cmp.
Theorem C16_cut_print_refuted_sum_concat : cut_refutes true nm_en0 (ESum SAdd (EConcat k1 k2) k3).
Proof. exact cut_refuted_sum_concat. Qed.
Print Assumptions C16_cut_print_refuted_sum_concat.
Theorem C16_cut_print_refuted_pct_sum : cut_refutes true nm_en0 (EPct (ESum SAdd k1 k2)).
Proof. exact cut_refuted_pct_sum. Qed.
Print Assumptions C16_cut_print_refuted_pct_sum.
Theorem C16_cut_print_refuted_pow_prod : cut_refutes true nm_en0 (EPow (EProd PTimes k2 k3) k2).
Proof. exact cut_refuted_pow_prod. Qed.
Print Assumptions C16_cut_print_refuted_pow_prod.
Theorem C16_cut_print_refuted_array :
  cut_refutes true nm_en0 (EArray [[ANum false [49]; ANum false [50]]; [ANum false [51]; ANum false [52]]]).
Proof. exact cut_refuted_array. Qed.
Print Assumptions C16_cut_print_refuted_array.
Theorem C16_cut_print_refuted_arg_separator : cut_refutes false nm_en0 (ENamedFun None [102] [k1; k2]).
Proof. exact cut_refuted_arg_separator. Qed.
Print Assumptions C16_cut_print_refuted_arg_separator.
Theorem C16_cut_print_refuted_boolean_english : cut_refutes true nm_es0 (EBool true).
Proof. exact cut_refuted_boolean_english. Qed.
Print Assumptions C16_cut_print_refuted_array.

(* on its class the second printer is the generic printer of C09 with the policy [moved_policy] *)
Theorem C16_moved_printer_is_policy_printer :
  forall mc dot nm tidx e, moved_class dot nm e = true ->
  print_moved mc dot nm e = gprint (m_tgt mc dot) nm moved_policy (move_ast mc tidx e).
Proof. exact print_moved_is_gprint. Qed.
Print Assumptions C16_moved_printer_is_policy_printer.

(* the complement: every tree of the class (no array literal, no LAMBDA, booleans only where the language
   says TRUE/FALSE, calls with two or more arguments only where the separator is ',', user function names
   in lower case) that has no bad pair relative to [moved_policy] — C09's theorem for an arbitrary policy *)
Theorem C16_cut_print_partial :
  forall mc dot nm env tidx e,
  moved_class dot nm e = true ->
  image (m_tgt mc dot) nm env (move_ast mc tidx e) = true ->
  no_bad_with moved_policy false (move_ast mc tidx e) = true ->
  lower_stable nm (move_ast mc tidx e) = true ->
  parse (m_tgt mc dot) nm env (print_moved mc dot nm e) = Some (move_ast mc tidx e, []).
Proof. exact cut_print_partial. Qed.
Print Assumptions C16_cut_print_partial.

Example C16_cut_print_partial_nonvacuous :
  ltac:(let t := type of cut_print_partial_nonvacuous in exact t).
Proof. exact cut_print_partial_nonvacuous. Qed.
