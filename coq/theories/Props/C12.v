(* Props/C12.v — Inserting rows or columns preserves every value.
   Statements only; every proof is [exact <lemma>] into Syntax/DisplaceProofs.v.
   Scope: the reference clause, the range clause and the #REF! clause of the statement, for
   the faithful model of stringify_reference / RangeKind / move_cell / the parser's reference
   construction (Syntax/Displace.v). The content clause (cells re-typed by move_cell) and the
   value clause are decided on the implementation by the oracle (see notes/C12.md). *)
From IronCalc Require Import Base.Prelude Base.Dec Codec.Column Codec.RefA1
  Syntax.Displace Syntax.DisplaceProofs.

(* the rewrite arithmetic and the relocation of cells are one and the same function: on the
   edited sheet the displaced target of a reference IS the place its target cell goes *)
Theorem C12_references_follow_cells :
  forall d s p, disp_sheet d = Some s -> displace_pos d false false s p = cell_map d p.
Proof. exact displace_pos_is_cell_map. Qed.
Print Assumptions C12_references_follow_cells.

(* columns, full statement: for every formula cell q (on the edited sheet or not), every stored
   reference a (all four absolute/relative combinations) to a cell (row, col) of the grid,
   every insertion position c and count k > 0: after move_cell + displace + re-parse, the stored
   reference, read from the MOVED anchor q', points at cell_map (row, col) with the same flags
   when that is on the grid, and is "#REF!" exactly when it is pushed beyond the last column *)
Theorem C12_refs_follow_columns :
  forall s c k same q q' a row col,
  0 < k -> a_sheet a = s -> resolve q a = (row, col) ->
  1 <= row <= LAST_ROW -> 1 <= col <= LAST_COLUMN ->
  anchor_map (DCol s c k) same q = Some q' ->
  let col' := if c <=? col then col + k else col in
  cell_map (DCol s c k) (row, col) = Some (row, col') /\
  (col' <= LAST_COLUMN ->
     exists a', apply_disp_full (DCol s c k) same q a = RwRef q' a' /\ follows q' a a' (row, col')) /\
  (LAST_COLUMN < col' -> apply_disp_full (DCol s c k) same q a = RwRefError).
Proof. exact ins_col_rewrite. Qed.
Print Assumptions C12_refs_follow_columns.

(* rows: the same on the grid; beyond the last row the code does NOT produce "#REF!" *)
Theorem C12_refs_follow_rows_partial :
  forall s r k same q q' a row col,
  0 < k -> a_sheet a = s -> resolve q a = (row, col) ->
  1 <= row <= LAST_ROW -> 1 <= col <= LAST_COLUMN ->
  anchor_map (DRow s r k) same q = Some q' ->
  let row' := if r <=? row then row + k else row in
  cell_map (DRow s r k) (row, col) = Some (row', col) /\
  (row' <= LAST_ROW ->
     exists a', apply_disp_full (DRow s r k) same q a = RwRef q' a' /\ follows q' a a' (row', col)) /\
  (LAST_ROW < row' -> apply_disp_full (DRow s r k) same q a = RwUnreadable).
Proof. exact ins_row_rewrite. Qed.
Print Assumptions C12_refs_follow_rows_partial.

(* the finding: "=B$1048576" in A1, one row inserted at row 2 *)
Theorem C12_row_overflow_refuted :
  exists s r k same q a,
    0 < k /\ grid q /\ grid (resolve q a) /\ a_sheet a = s /\
    r <= fst (resolve q a) /\ LAST_ROW < fst (resolve q a) + k /\
    apply_disp_full (DRow s r k) same q a = RwUnreadable /\
    apply_disp_full (DRow s r k) same q a <> RwRefError /\
    displace_text (DRow s r k) false false q a = [66; 36; 49; 48; 52; 56; 53; 55; 55] /\
    parse_reference_a1 (displace_text (DRow s r k) false false q a) = None.
Proof. exact ins_row_overflow_refuted. Qed.
Print Assumptions C12_row_overflow_refuted.

(* what is printed (the text handed back to the parser) and that it reads back *)
Theorem C12_printed_reference_rows :
  forall s r k q a fc row col,
  0 < k -> a_sheet a = s -> resolve q a = (row, col) -> 1 <= row -> 1 <= col <= LAST_COLUMN ->
  let row' := if r <=? row then row + k else row in
  cell_map (DRow s r k) (row, col) = Some (row', col) /\
  displace (DRow s r k) false fc q a = Some (mkp row' col a).
Proof. exact ins_row_ref_follows. Qed.
Print Assumptions C12_printed_reference_rows.

Theorem C12_printed_reference_columns :
  forall s c k q a fr row col,
  0 < k -> a_sheet a = s -> resolve q a = (row, col) -> 1 <= row -> 1 <= col <= LAST_COLUMN ->
  let col' := if c <=? col then col + k else col in
  cell_map (DCol s c k) (row, col) = Some (row, col') /\
  (col' <= LAST_COLUMN -> displace (DCol s c k) fr false q a = Some (mkp row col' a)) /\
  (LAST_COLUMN < col' -> displace (DCol s c k) fr false q a = None).
Proof. exact ins_col_ref_follows. Qed.
Print Assumptions C12_printed_reference_columns.

Theorem C12_text_reads_back :
  forall d q a p,
  displace d false false q a = Some p -> p_row p <= LAST_ROW ->
  parse_reference_a1 (displace_text d false false q a) = Some p.
Proof. exact displace_text_reads_back. Qed.
Print Assumptions C12_text_reads_back.

(* move_cell re-types the formula in the moved cell: same absolute target, same flags *)
Theorem C12_move_cell_keeps_target :
  forall q q' a,
  1 <= fst (resolve q a) <= LAST_ROW -> 1 <= snd (resolve q a) <= LAST_COLUMN ->
  exists a', rebase q q' a = Some a' /\ resolve q' a' = resolve q a /\
             a_abs_row a' = a_abs_row a /\ a_abs_col a' = a_abs_col a /\ a_sheet a' = a_sheet a.
Proof. exact rebase_keeps_target. Qed.
Print Assumptions C12_move_cell_keeps_target.

(* the relative offset is recomputed from the moved anchor *)
Theorem C12_anchor_and_target_move_together :
  forall s r k q q' a a' p,
  0 < k -> a_abs_row a = false ->
  cell_map (DRow s r k) q = Some q' ->
  rebase q q' a = Some a' ->
  displace (DRow s r k) false false q' a' = Some p -> a_sheet a = s ->
  a_row (of_pref s q' p) =
    a_row a + (if r <=? fst (resolve q a) then k else 0) - (if r <=? fst q then k else 0).
Proof. exact anchor_and_target_move_together. Qed.
Print Assumptions C12_anchor_and_target_move_together.

(* references to other sheets are left alone *)
Theorem C12_other_sheet_unchanged :
  forall d s' q a fr fc row col,
  disp_sheet d = Some s' -> a_sheet a <> s' -> resolve q a = (row, col) ->
  1 <= row -> 1 <= col <= LAST_COLUMN ->
  displace d fr fc q a = Some (mkp row col a).
Proof. exact other_sheet_ref_unchanged. Qed.
Print Assumptions C12_other_sheet_unchanged.

(* ranges: r1 < r <= r2 grows to [r1, r2 + k]; r <= r1 shifts; r > r2 is unchanged *)
Theorem C12_ranges_rows :
  forall s r k q g r1 c1 r2 c2,
  0 < k -> g_sheet g = s -> is_full_row g = false ->
  resolve q (corner1 g) = (r1, c1) -> resolve q (corner2 g) = (r2, c2) ->
  1 <= r1 -> 1 <= r2 -> 1 <= c1 <= LAST_COLUMN -> 1 <= c2 <= LAST_COLUMN ->
  displace_range (DRow s r k) q g =
    (Some (mkp (if r <=? r1 then r1 + k else r1) c1 (corner1 g)),
     Some (mkp (if r <=? r2 then r2 + k else r2) c2 (corner2 g))).
Proof. exact ins_row_range. Qed.
Print Assumptions C12_ranges_rows.

Theorem C12_ranges_grow_shift_or_stay :
  forall r k r1 r2,
  0 < k -> r1 <= r2 ->
  (r1 < r <= r2 -> (if r <=? r1 then r1 + k else r1) = r1 /\ (if r <=? r2 then r2 + k else r2) = r2 + k) /\
  (r <= r1 -> (if r <=? r1 then r1 + k else r1) = r1 + k /\ (if r <=? r2 then r2 + k else r2) = r2 + k) /\
  (r2 < r -> (if r <=? r1 then r1 + k else r1) = r1 /\ (if r <=? r2 then r2 + k else r2) = r2).
Proof. exact ins_row_range_cases. Qed.
Print Assumptions C12_ranges_grow_shift_or_stay.

Theorem C12_ranges_columns :
  forall s c k q g r1 c1 r2 c2,
  0 < k -> g_sheet g = s -> is_full_col g = false ->
  resolve q (corner1 g) = (r1, c1) -> resolve q (corner2 g) = (r2, c2) ->
  1 <= r1 -> 1 <= r2 -> 1 <= c1 <= LAST_COLUMN -> 1 <= c2 <= LAST_COLUMN ->
  (if c <=? c2 then c2 + k else c2) <= LAST_COLUMN -> c1 <= c2 ->
  displace_range (DCol s c k) q g =
    (Some (mkp r1 (if c <=? c1 then c1 + k else c1) (corner1 g)),
     Some (mkp r2 (if c <=? c2 then c2 + k else c2) (corner2 g))).
Proof. exact ins_col_range. Qed.
Print Assumptions C12_ranges_columns.

(* "A:C" ignores row edits, "2:5" ignores column edits *)
Theorem C12_full_row_range_exempt :
  forall s r delta q g c1 c2,
  is_full_row g = true ->
  snd (resolve q (corner1 g)) = c1 -> snd (resolve q (corner2 g)) = c2 ->
  1 <= c1 <= LAST_COLUMN -> 1 <= c2 <= LAST_COLUMN ->
  displace_range (DRow s r delta) q g =
    (Some (mkp 1 c1 (corner1 g)), Some (mkp LAST_ROW c2 (corner2 g))).
Proof. exact full_row_range_exempt. Qed.
Print Assumptions C12_full_row_range_exempt.

Theorem C12_full_col_range_exempt :
  forall s c delta q g r1 r2,
  is_full_col g = true ->
  fst (resolve q (corner1 g)) = r1 -> fst (resolve q (corner2 g)) = r2 ->
  1 <= r1 -> 1 <= r2 ->
  displace_range (DCol s c delta) q g =
    (Some (mkp r1 1 (corner1 g)), Some (mkp r2 LAST_COLUMN (corner2 g))).
Proof. exact full_col_range_exempt. Qed.
Print Assumptions C12_full_col_range_exempt.

(* F27 repaired (commit 3e01966): insert_rows / insert_columns validate their index exactly as
   the deletions do — every accepted insertion has a positive count and 1 <= index <= last *)
Theorem C12_accepted_insert_index_on_grid :
  forall last r delta,
  0 <= delta -> edit_valid last r delta = true -> 0 < delta /\ 1 <= r <= last.
Proof. exact accepted_insert_on_grid. Qed.
Print Assumptions C12_accepted_insert_index_on_grid.

Theorem C12_insert_accepted_iff_index_on_grid :
  forall last r k, 0 < k -> (edit_valid last r k = true <-> 1 <= r <= last).
Proof. exact edit_valid_insert. Qed.
Print Assumptions C12_insert_accepted_iff_index_on_grid.

(* the former witnesses insert_rows(0,0,2), insert_rows(0,-3,1), insert_columns(0,0,1) are refused *)
Example C12_insert_below_one_refused :
  edit_valid LAST_ROW 0 2 = false /\ edit_valid LAST_ROW (-3) 1 = false /\
  edit_valid LAST_COLUMN 0 1 = false /\ edit_valid LAST_ROW (LAST_ROW + 1) 1 = false /\
  edit_valid LAST_ROW 1 1 = true /\ edit_valid LAST_ROW LAST_ROW 7 = true.
Proof. exact insert_below_one_refused. Qed.

(* non-vacuity: "=B$5" in C7, two rows inserted at row 3 -> "=B$7" in C9 *)
Example C12_nonvacuous :
  apply_disp_full (DRow 0 3 2) true (7, 3)
    {| a_sheet := 0; a_row := 5; a_col := -1; a_abs_row := true; a_abs_col := false |} =
  RwRef (9, 3) {| a_sheet := 0; a_row := 7; a_col := -1; a_abs_row := true; a_abs_col := false |}.
Proof. exact ins_row_rewrite_example. Qed.
