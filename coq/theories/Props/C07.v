(* Props/C07.v — Evaluation is deterministic and independent of editing order.
   Statements only.  Scope: workbooks of plain cells; evaluation order = the order parameter
   of the store evaluator (what HashMap iteration, shared-formula order or entry order could
   influence).  Dynamic-array spill ordering (F29) is outside these theorems. *)
From Coq Require Import Permutation.
From IronCalc Require Import Base.Prelude Eval.NumOps Eval.Value Eval.Coerce Eval.Ops Eval.Funs
  Eval.Eval Eval.Store Eval.Denote Eval.EvalProofs Eval.StoreProofs Eval.OrderProofs.

(* full strength: for every workbook of plain cells the values do not depend on the order in
   which cells are evaluated.  FALSE of the faithful model (refutations below). *)
Definition C07_statement : Prop :=
  forall num (N : NumOps num) (wb : workbook (num:=num)) (o1 o2 : list cref),
  (forall c, plain_content (lookup wb c)) -> Permutation o1 o2 ->
  forall c, In c o1 -> value_at (evaluate N o1 wb) c = value_at (evaluate N o2 wb) c.

(* evaluation is a function of the inputs: stored values, marks left behind and the order of
   evaluation do not matter *)
Theorem C07_function_of_inputs_partial :
  forall num (N : NumOps num) (cont0 : cref -> content (num:=num)),
  (forall c, plain_content (cont0 c)) ->
  forall rank : cref -> nat,
  (forall c f v d, cont0 c = CFormula f v -> In d (refs f) -> (rank d < rank c)%nat) ->
  (forall c f v, cont0 c = CFormula f v -> stable_result N (result_of N (dn N cont0 rank) c f)) ->
  forall k, (forall c, (rank c < k)%nat) ->
  forall o1 o2 st1 st2,
  same_inputs cont0 (cont st1) -> oof st1 = false -> same_inputs cont0 (cont st2) -> oof st2 = false ->
  forall c, In c o1 -> In c o2 -> value_at (evaluate_in N k o1 st1) c = value_at (evaluate_in N k o2 st2) c.
Proof. exact (@values_depend_on_inputs_only). Qed.
Print Assumptions C07_function_of_inputs_partial.

Theorem C07_order_acyclic_partial :
  forall num (N : NumOps num) (cont0 : cref -> content (num:=num)),
  (forall c, plain_content (cont0 c)) ->
  forall rank : cref -> nat,
  (forall c f v d, cont0 c = CFormula f v -> In d (refs f) -> (rank d < rank c)%nat) ->
  (forall c f v, cont0 c = CFormula f v -> stable_result N (result_of N (dn N cont0 rank) c f)) ->
  forall k, (forall c, (rank c < k)%nat) ->
  forall o1 o2 st0, Permutation o1 o2 -> same_inputs cont0 (cont st0) -> oof st0 = false ->
  forall c, In c o1 -> value_at (evaluate_in N k o1 st0) c = value_at (evaluate_in N k o2 st0) c.
Proof. exact (@order_independent). Qed.
Print Assumptions C07_order_acyclic_partial.

Theorem C07_idempotent_partial :
  forall num (N : NumOps num) (cont0 : cref -> content (num:=num)),
  (forall c, plain_content (cont0 c)) ->
  forall rank : cref -> nat,
  (forall c f v d, cont0 c = CFormula f v -> In d (refs f) -> (rank d < rank c)%nat) ->
  (forall c f v, cont0 c = CFormula f v -> stable_result N (result_of N (dn N cont0 rank) c f)) ->
  forall k, (forall c, (rank c < k)%nat) ->
  forall o st0, same_inputs cont0 (cont st0) -> oof st0 = false ->
  forall c, In c o -> value_at (evaluate_in N k o (evaluate_in N k o st0)) c = value_at (evaluate_in N k o st0) c.
Proof. exact (@idempotent). Qed.
Print Assumptions C07_idempotent_partial.

(* the reference semantics does not look at stored values (what a save/reload could perturb) *)
Theorem C07_denote_ignores_stored_values :
  forall num (N : NumOps num) k (k1 k2 : cref -> content (num:=num)),
  same_inputs k1 k2 -> forall c, denote_fuel N k k1 c = denote_fuel N k k2 c.
Proof. exact (@denote_same_inputs). Qed.
Print Assumptions C07_denote_ignores_stored_values.

(* F10: on a cycle through an absorbing function the order of evaluation decides the values *)
Theorem C07_refuted_order_on_absorbed_cycle :
  value_at (evaluate ZOps [cA1; cB1] wb_f10) cB1 = VErr ECIRC /\
  value_at (evaluate ZOps [cB1; cA1] wb_f10) cB1 = VNum 6.
Proof. exact (conj (proj1 (proj2 f10_values)) (proj2 f10_other_order)). Qed.
Print Assumptions C07_refuted_order_on_absorbed_cycle.

(* F30: even on an acyclic workbook, when a formula's result is an empty value *)
Theorem C07_refuted_order_raw_vs_stored :
  value_at (evaluate ZOps [cA1; cB1] wb_f30) cA1 = VStr [120] /\
  value_at (evaluate ZOps [cB1; cA1] wb_f30) cA1 = VStr [48; 120].
Proof. exact (conj (proj1 f30_values) f30_other_order). Qed.
Print Assumptions C07_refuted_order_raw_vs_stored.

Example C07_hypotheses_satisfiable :
  (forall c, plain_content (lookup wb_ok c)) /\
  (forall c f v d, lookup wb_ok c = CFormula f v -> In d (refs f) -> (rank_ok d < rank_ok c)%nat) /\
  (forall c f v, lookup wb_ok c = CFormula f v -> stable_result ZOps (result_of ZOps (dn ZOps (lookup wb_ok) rank_ok) c f)) /\
  (forall c, (rank_ok c < fuel_for wb_ok)%nat).
Proof. exact (conj wb_ok_plain (conj wb_ok_acyclic (conj wb_ok_storable wb_ok_rank_bound))). Qed.
