(* Props/C14.v — Inserting then deleting the same rows or columns is the identity.
   Statements only; proofs are [exact] into Syntax/DisplaceProofs.v. Scope: positions of
   cells/links/row descriptors ([cell_map]) and stored references (the whole rewrite, twice).
   Cell contents (two re-typings), column descriptors (Sheet/Cols.v, C29) and values are decided
   on the implementation by the dump-equality oracle (notes/C14.md). *)
From IronCalc Require Import Base.Prelude Base.Dec Codec.Column Codec.RefA1
  Syntax.Displace Syntax.DisplaceProofs.

Theorem C14_cell_map_rows :
  forall s r k p, 0 < k ->
  exists p', cell_map (DRow s r k) p = Some p' /\ cell_map (DRow s r (- k)) p' = Some p.
Proof. exact ins_del_cell_map_rows. Qed.
Print Assumptions C14_cell_map_rows.

Theorem C14_cell_map_columns :
  forall s c k p, 0 < k ->
  exists p', cell_map (DCol s c k) p = Some p' /\ cell_map (DCol s c (- k)) p' = Some p.
Proof. exact ins_del_cell_map_cols. Qed.
Print Assumptions C14_cell_map_columns.

(* nothing lands in the inserted band, so the deletion deletes only blank lines *)
Theorem C14_inserted_band_is_empty :
  forall x r k y, 0 < k -> line_map x r k = Some y -> y < r \/ r + k <= y.
Proof. exact ins_misses_band. Qed.
Print Assumptions C14_inserted_band_is_empty.

(* stored references: re-type in the moved cell, displace, re-parse — for the insertion and
   then for the deletion — gives back the anchor and the stored reference, for formulas on the
   edited sheet or elsewhere, references to any sheet, all flag combinations, provided the
   insertion pushed the target not beyond the last row / column *)
Theorem C14_refs_rows :
  forall s r k same q a,
  0 < k ->
  1 <= fst (resolve q a) -> 1 <= snd (resolve q a) <= LAST_COLUMN ->
  (if r <=? fst (resolve q a) then fst (resolve q a) + k else fst (resolve q a)) <= LAST_ROW ->
  then_disp (DRow s r k) (DRow s r (- k)) same q a = Some (q, a).
Proof. exact ins_del_ref_rows. Qed.
Print Assumptions C14_refs_rows.

Theorem C14_refs_columns :
  forall s c k same q a,
  0 < k ->
  1 <= fst (resolve q a) <= LAST_ROW -> 1 <= snd (resolve q a) ->
  (if c <=? snd (resolve q a) then snd (resolve q a) + k else snd (resolve q a)) <= LAST_COLUMN ->
  then_disp (DCol s c k) (DCol s c (- k)) same q a = Some (q, a).
Proof. exact ins_del_ref_cols. Qed.
Print Assumptions C14_refs_columns.

(* the general principle both instances use *)
Theorem C14_inverse_edits_restore_references :
  forall d1 d2 same q a q1 t1,
  1 <= fst (resolve q a) <= LAST_ROW -> 1 <= snd (resolve q a) <= LAST_COLUMN ->
  anchor_map d1 same q = Some q1 -> anchor_map d2 same q1 = Some q ->
  displace_pos d1 false false (a_sheet a) (resolve q a) = Some t1 ->
  displace_pos d2 false false (a_sheet a) t1 = Some (resolve q a) ->
  1 <= fst t1 <= LAST_ROW -> 1 <= snd t1 <= LAST_COLUMN ->
  then_disp d1 d2 same q a = Some (q, a).
Proof. exact then_disp_inverse. Qed.
Print Assumptions C14_inverse_edits_restore_references.

(* non-vacuity: "=$D5" (row relative) in C7, two rows inserted at row 3 and deleted again *)
Example C14_nonvacuous :
  then_disp (DRow 0 3 2) (DRow 0 3 (-2)) true (7, 3)
    {| a_sheet := 0; a_row := -2; a_col := 4; a_abs_row := false; a_abs_col := true |} =
  Some ((7, 3), {| a_sheet := 0; a_row := -2; a_col := 4; a_abs_row := false; a_abs_col := true |}).
Proof. exact then_disp_example. Qed.
