(* Props/C05.v — Every formula value is consistent with its inputs.
   Statements only; every proof is [exact <lemma>] into the Eval library. *)
From IronCalc Require Import Base.Prelude Eval.NumOps Eval.Value Eval.Coerce Eval.Ops Eval.Funs
  Eval.Eval Eval.Store Eval.Denote Eval.EvalProofs Eval.StoreProofs Eval.OrderProofs Eval.TermProofs.

(* every formula cell holds what its formula produces over the stored values *)
Definition consistent {num} (N : NumOps num) (cont0 : cref -> content (num:=num)) (st : store (num:=num)) : Prop :=
  forall c f v, cont0 c = CFormula f v ->
  value_at st c = of_fvalue (sink_plain N (result_of N (value_at st) c f)).

(* the property at full strength (consistency part): for every number type, every workbook
   of plain cells and every evaluation order that covers it.  FALSE of the faithful model:
   see the three refutations below. *)
Definition C05_statement : Prop :=
  forall num (N : NumOps num) (wb : workbook (num:=num)) (order : list cref),
  (forall c, plain_content (lookup wb c)) ->
  (forall c, formula_of (lookup wb c) <> None -> In c order) ->
  consistent N (lookup wb) (evaluate N order wb).

(* acyclic workbook whose reference results are storable as they are: the store evaluator
   computes the reference semantics, in every order, from every previous state, and the
   model never runs out of fuel *)
Theorem C05_acyclic_partial :
  forall num (N : NumOps num) (cont0 : cref -> content (num:=num)),
  (forall c, plain_content (cont0 c)) ->
  forall rank : cref -> nat,
  (forall c f v d, cont0 c = CFormula f v -> In d (refs f) -> (rank d < rank c)%nat) ->
  (forall c f v, cont0 c = CFormula f v -> stable_result N (result_of N (dn N cont0 rank) c f)) ->
  forall k order st0,
  (forall c, (rank c < k)%nat) -> same_inputs cont0 (cont st0) -> oof st0 = false ->
  forall c, In c order \/ formula_of (cont0 c) = None ->
  value_at (evaluate_in N k order st0) c = dn N cont0 rank c.
Proof. exact (@evaluate_is_denote). Qed.
Print Assumptions C05_acyclic_partial.

(* hence consistency, the property statement itself *)
Theorem C05_consistent_partial :
  forall num (N : NumOps num) (cont0 : cref -> content (num:=num)),
  (forall c, plain_content (cont0 c)) ->
  forall rank : cref -> nat,
  (forall c f v d, cont0 c = CFormula f v -> In d (refs f) -> (rank d < rank c)%nat) ->
  (forall c f v, cont0 c = CFormula f v -> stable_result N (result_of N (dn N cont0 rank) c f)) ->
  forall k order st0,
  (forall c, (rank c < k)%nat) -> same_inputs cont0 (cont st0) -> oof st0 = false ->
  (forall c, formula_of (cont0 c) <> None -> In c order) ->
  consistent N cont0 (evaluate_in N k order st0).
Proof. exact (@evaluate_consistent). Qed.
Print Assumptions C05_consistent_partial.

(* fuel suffices (no out-of-fuel answer) and the inputs are never changed by evaluation *)
Theorem C05_fuel_suffices_acyclic :
  forall num (N : NumOps num) (cont0 : cref -> content (num:=num)),
  (forall c, plain_content (cont0 c)) ->
  forall rank : cref -> nat,
  (forall c f v d, cont0 c = CFormula f v -> In d (refs f) -> (rank d < rank c)%nat) ->
  (forall c f v, cont0 c = CFormula f v -> stable_result N (result_of N (dn N cont0 rank) c f)) ->
  forall k order st0,
  (forall c, (rank c < k)%nat) -> same_inputs cont0 (cont st0) -> oof st0 = false ->
  same_inputs cont0 (cont (evaluate_in N k order st0)) /\ oof (evaluate_in N k order st0) = false.
Proof. exact (@evaluate_preserves). Qed.
Print Assumptions C05_fuel_suffices_acyclic.

(* termination for EVERY dependency shape, cycles included: with the fuel [evaluate] uses, the
   store evaluator never takes its out-of-fuel exit on a workbook of plain cells *)
Theorem C05_fuel_suffices :
  forall num (N : NumOps num) (wb : workbook (num:=num)),
  (forall c, plain_content (lookup wb c)) -> forall order, oof (evaluate N order wb) = false.
Proof. exact (@fuel_suffices). Qed.
Print Assumptions C05_fuel_suffices.

(* the reference value does not depend on the fuel above the dependency depth *)
Theorem C05_denote_fuel_independent :
  forall num (N : NumOps num) (cont0 : cref -> content (num:=num)) (rank : cref -> nat),
  (forall c f v d, cont0 c = CFormula f v -> In d (refs f) -> (rank d < rank c)%nat) ->
  forall k c, (rank c < k)%nat -> denote_fuel N k cont0 c = dn N cont0 rank c.
Proof. exact (@dn_fuel). Qed.
Print Assumptions C05_denote_fuel_independent.

(* the stateful evaluator and the pure expression semantics agree whenever the cell reader
   agrees with the environment on the cells the formula mentions (the simulation lemma) *)
Theorem C05_eval_simulation :
  forall num (N : NumOps num) S1 S2 (R : S1 -> S2 -> Prop) (allowed : cref -> Prop)
         (rd1 : cref -> M (S:=S1) (value num)) (rd2 : cref -> M (S:=S2) (value num)),
  (forall c, allowed c -> mrelP R not_range (rd1 c) (rd2 c)) ->
  forall anchor f, (forall c, In c (refs f) -> allowed c) ->
  mrelP R not_range (eval_formula N rd1 anchor f) (eval_formula N rd2 anchor f).
Proof. exact (@eval_formula_rel). Qed.
Print Assumptions C05_eval_simulation.

(* F10: a cycle through an error-absorbing function. A1 = IFERROR(B1,5), B1 = A1+1 gives
   A1 = 5, B1 = #CIRC!, although B1's formula over the stored values gives 6 *)
Theorem C05_refuted_absorbed_cycle :
  value_at (evaluate ZOps [cA1; cB1] wb_f10) cA1 = VNum 5 /\
  value_at (evaluate ZOps [cA1; cB1] wb_f10) cB1 = VErr ECIRC /\
  result_of ZOps (value_at (evaluate ZOps [cA1; cB1] wb_f10)) cB1 (EBin OAdd (ERef 0 1 1) (ENum 1)) = VNum 6 /\
  values_consistent_b ZOps Z.eqb (cont (evaluate ZOps [cA1; cB1] wb_f10)) [cA1; cB1] = false.
Proof. exact f10_values. Qed.
Print Assumptions C05_refuted_absorbed_cycle.

(* F30: the reader that triggers an evaluation sees the raw result, the cell stores the
   sink's version. A1 = B1&"x", B1 = C1 (C1 empty): A1 = "x" but B1 stores 0 — on an ACYCLIC
   workbook *)
Theorem C05_refuted_raw_vs_stored_empty :
  value_at (evaluate ZOps [cA1; cB1] wb_f30) cA1 = VStr [120] /\
  value_at (evaluate ZOps [cA1; cB1] wb_f30) cB1 = VNum 0 /\
  result_of ZOps (value_at (evaluate ZOps [cA1; cB1] wb_f30)) cA1 (EConcat (ERef 0 1 2) (EStr [120])) = VStr [48; 120] /\
  values_consistent_b ZOps Z.eqb (cont (evaluate ZOps [cA1; cB1] wb_f30)) [cA1; cB1] = false.
Proof. exact f30_values. Qed.
Print Assumptions C05_refuted_raw_vs_stored_empty.

(* F31: the same with an overflowing number: A1 = ISNUMBER(B1), B1 = MAX*10 *)
Theorem C05_refuted_raw_vs_stored_nonfinite :
  value_at (evaluate BOps [cA1; cB1] wb_f31) cA1 = VBool true /\
  value_at (evaluate BOps [cA1; cB1] wb_f31) cB1 = VErr ENUM /\
  value_at (evaluate BOps [cB1; cA1] wb_f31) cA1 = VBool false.
Proof. exact f31_values. Qed.
Print Assumptions C05_refuted_raw_vs_stored_nonfinite.

(* non-vacuity: a workbook that satisfies every hypothesis of the partial theorems *)
Example C05_hypotheses_satisfiable :
  (forall c, plain_content (lookup wb_ok c)) /\
  (forall c f v d, lookup wb_ok c = CFormula f v -> In d (refs f) -> (rank_ok d < rank_ok c)%nat) /\
  (forall c f v, lookup wb_ok c = CFormula f v -> stable_result ZOps (result_of ZOps (dn ZOps (lookup wb_ok) rank_ok) c f)) /\
  (forall c, (rank_ok c < fuel_for wb_ok)%nat) /\
  value_at (evaluate ZOps [cC1; cB1; cA1] wb_ok) cC1 = VNum 6.
Proof. exact (conj wb_ok_plain (conj wb_ok_acyclic (conj wb_ok_storable (conj wb_ok_rank_bound (proj1 wb_ok_values))))). Qed.
