(* Props/C19.v — Typed numbers are recognised exactly.
   Statements only; every proof is [exact <lemma>] or a closed computation on a witness.
   The model (Num/Recognise.v) is faithful to the code as it is, including its defects; the grammar
   of the property statement is Num/RecogniseSpec.v. *)
From IronCalc Require Import Base.Prelude Base.Dec Num.Recognise Num.RecogniseSpec Num.RecogniseProofs
  Generated.Locales_c19.

(* every locale of the built code has separators the theorems can work with *)
Theorem C19_locales_wellformed :
  forallb (fun kl => wf_seps (l_dec (snd kl)) (l_grp (snd kl))) locales = true /\
  map fst locales = supported_locale_ids.
Proof. split; vm_compute; reflexivity. Qed.
Print Assumptions C19_locales_wellformed.

(* COMPLETENESS, for ALL texts and every well-formed locale: whatever the grammar of the statement
   accepts and a cell can hold (magnitude below the binary64 overflow threshold, exact integer
   comparison) is recognised by the code with the same sign, digits, exponent, grouping and kind.
   Premise on dates: a text without % and currency symbol is offered to the date recogniser first. *)
Theorem C19_complete :
  forall L t d,
  wf_seps (l_dec L) (l_grp L) = true ->
  spec_stored L t = Some d ->
  (s_affix d = ANone -> parse_date L t = None) ->
  exists r, parse_formatted_number L t = Some r /\ agrees r d = true.
Proof. exact complete. Qed.
Print Assumptions C19_complete.

Example C19_complete_nonvacuous :
  exists d, spec_stored loc_de [32; 45; 49; 46; 50; 51; 52; 44; 53; 101; 45; 50; 32; 8364] = Some d /\
            s_neg d = true /\ s_int d = [49; 50; 51; 52] /\ s_frac d = [53] /\ s_exp d = -2 /\
            s_grouped d = true /\ s_affix d = ACurrency [8364] false.
Proof. eexists. vm_compute. repeat split. Qed.

(* SOUNDNESS, for ALL texts and every well-formed locale: whatever the code recognises as a number
   (not as a date) is accepted by the grammar, representable, and has the same sign, digits,
   exponent, grouping and kind - outside the two known defect classes, which are predicates on the
   input text: double_sign (F07 "-cur" + signed number), ill_grouped (F07 misplaced group separators). *)
Theorem C19_sound_partial :
  forall L t r,
  wf_seps (l_dec L) (l_grp L) = true ->
  parse_formatted_number L t = Some r ->
  r_kind r <> KDate ->
  known_class L t = None ->
  exists d, spec_stored L t = Some d /\ agrees r d = true.
Proof. exact sound. Qed.
Print Assumptions C19_sound_partial.

Example C19_sound_nonvacuous :
  exists r, parse_formatted_number loc_en [36; 32; 49; 44; 50; 51; 52; 46; 53] = Some r /\
            r_kind r <> KDate /\ known_class loc_en [36; 32; 49; 44; 50; 51; 52; 46; 53] = None.
Proof. eexists. split; [vm_compute; reflexivity|]. split; [cbn; discriminate | vm_compute; reflexivity]. Qed.

(* percent, currency, exponent, grouped and date input get a format of that kind (an exponent wins) *)
Theorem C19_kind :
  forall L t r, parse_formatted_number L t = Some r -> kind_ok r = true.
Proof. exact kind_format. Qed.
Print Assumptions C19_kind.

(* F06 (repaired in /repo, 6761320): "-$1e3" is -1000 - in the grammar and in the code *)
Example C19_negcur_exponent_sign :
  exists d r, spec_stored loc_en [45; 36; 49; 101; 51] = Some d /\
              parse_formatted_number loc_en [45; 36; 49; 101; 51] = Some r /\ s_neg d = true /\ agrees r d = true.
Proof. eexists. eexists. vm_compute. repeat split. Qed.

(* F07: misplaced group separators are recognised although the grammar rejects them *)
Definition recognised_number (L : locale) (t : text) : bool :=
  match parse_formatted_number L t with
  | Some r => match r_value r with VNum _ _ _ => true | VSerial _ => false end
  | None => false
  end.
Theorem C19_refuted_groups :
  forallb (fun t => recognised_number loc_en t && match spec_recognise loc_en t with None => true | Some _ => false end
                    && ill_grouped loc_en t)
    [ [49; 44; 44; 50; 51; 52]; [53; 44]; [53; 44; 44]; [49; 50; 51; 52; 44; 53; 54; 55]; [49; 44; 50; 51; 52; 53; 54; 55] ] = true.
Proof. vm_compute. reflexivity. Qed.
Print Assumptions C19_refuted_groups.

(* F07: "-$-5" is recognised (as +5) although the grammar allows one sign *)
Theorem C19_refuted_double_sign :
  exists t r p, parse_formatted_number loc_en t = Some r /\ spec_recognise loc_en t = None /\
                double_sign loc_en t = true /\ r_value r = VNum p false true /\ p_neg p = true.
Proof. exists [45; 36; 45; 53]. eexists. eexists. vm_compute. repeat split. Qed.
Print Assumptions C19_refuted_double_sign.

(* F08 (repaired in /repo, 6e3cec0): every recognised value is finite. For a number, the exact
   magnitude  digits * 10^(exponent - #fraction digits)  is below 2^1024 - 2^970, the first value a
   correctly rounded conversion turns into infinity (integer comparison, no float); serials are integers. *)
Theorem C19_finite :
  forall L t r, parse_formatted_number L t = Some r -> value_finite (r_value r) = true.
Proof. exact recognised_finite. Qed.
Print Assumptions C19_finite.

Theorem C19_finite_meaning :
  forall ints frac ex,
  all_digits (ints ++ frac) = true -> dec_overflows ints frac ex = false ->
  let m := dec_val 0 (ints ++ frac) in
  let e := ex - len frac in
  (0 <= e -> m * 10 ^ e < f64_overflow_threshold) /\
  (e < 0 -> m < f64_overflow_threshold * 10 ^ (- e)).
Proof. exact dec_overflows_meaning. Qed.
Print Assumptions C19_finite_meaning.

(* the boundary itself: "1e999" and the 309-digit numeral 2^1024 - 2^970 are not recognised, the numeral
   just below it is *)
Example C19_finite_boundary :
  parse_formatted_number loc_en [49; 101; 57; 57; 57] = None /\
  parse_formatted_number loc_en (dec_of_Z (2 ^ 1024 - 2 ^ 970)) = None /\
  (exists r, parse_formatted_number loc_en (dec_of_Z (2 ^ 1024 - 2 ^ 970 - 1)) = Some r) /\
  f64_overflow_threshold = 2 ^ 1024 - 2 ^ 970.
Proof. split; [vm_compute; reflexivity|]. split; [vm_compute; reflexivity|]. split; [eexists; vm_compute; reflexivity | reflexivity]. Qed.
