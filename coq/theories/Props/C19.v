(* Props/C19.v — Typed numbers are recognised exactly.
   Statements only; every proof is [exact <lemma>] or a closed computation on a witness.
   The model (Num/Recognise.v) is faithful to the code as it is, including its defects; the grammar
   of the property statement is Num/RecogniseSpec.v. *)
From IronCalc Require Import Base.Prelude Base.Dec Num.Recognise Num.RecogniseSpec Num.RecogniseProofs
  Generated.Locales_c19.

(* every locale of the built code has separators the theorems can work with *)
Theorem C19_locales_wellformed :
  forallb (fun kl => wf_seps (l_dec (snd kl)) (l_grp (snd kl))) locales = true /\
  map fst locales = supported_locale_ids.
Proof. split; vm_compute; reflexivity. Qed.
Print Assumptions C19_locales_wellformed.

(* COMPLETENESS, for ALL texts and every well-formed locale: whatever the grammar of the statement
   accepts is recognised by the code, with the same digits, exponent, grouping and kind
   (agrees_core), and with the same sign unless the text is "-cur" + a number with an exponent (F06).
   Premise on dates: a text without % and currency symbol is offered to the date recogniser first. *)
Theorem C19_complete_partial :
  forall L t d,
  wf_seps (l_dec L) (l_grp L) = true ->
  spec_recognise L t = Some d ->
  (s_affix d = ANone -> parse_date L t = None) ->
  exists r, parse_formatted_number L t = Some r /\ agrees_core r d = true /\
            (negcur_exponent L t = false -> agrees_sign r d = true).
Proof. exact complete. Qed.
Print Assumptions C19_complete_partial.

Example C19_complete_nonvacuous :
  exists d, spec_recognise loc_de [32; 45; 49; 46; 50; 51; 52; 44; 53; 101; 45; 50; 32; 8364] = Some d /\
            s_neg d = true /\ s_int d = [49; 50; 51; 52] /\ s_frac d = [53] /\ s_exp d = -2 /\
            s_grouped d = true /\ s_affix d = ACurrency [8364] false.
Proof. eexists. vm_compute. repeat split. Qed.

(* SOUNDNESS, for ALL texts and every well-formed locale: whatever the code recognises as a number
   (not as a date) is accepted by the grammar with the same sign, digits, exponent, grouping and
   kind — outside the three known defect classes, which are predicates on the input text:
   double_sign (F07 "-cur" + signed number), ill_grouped (F07 misplaced group separators),
   negcur_exponent (F06 "-cur" + number with an exponent). *)
Theorem C19_sound_partial :
  forall L t r,
  wf_seps (l_dec L) (l_grp L) = true ->
  parse_formatted_number L t = Some r ->
  r_kind r <> KDate ->
  known_class L t = None ->
  exists d, spec_recognise L t = Some d /\ agrees r d = true.
Proof. exact sound. Qed.
Print Assumptions C19_sound_partial.

Example C19_sound_nonvacuous :
  exists r, parse_formatted_number loc_en [36; 32; 49; 44; 50; 51; 52; 46; 53] = Some r /\
            r_kind r <> KDate /\ known_class loc_en [36; 32; 49; 44; 50; 51; 52; 46; 53] = None.
Proof. eexists. split; [vm_compute; reflexivity|]. split; [cbn; discriminate | vm_compute; reflexivity]. Qed.

(* percent, currency, exponent, grouped and date input get a format of that kind (an exponent wins) *)
Theorem C19_kind :
  forall L t r, parse_formatted_number L t = Some r -> kind_ok r = true.
Proof. exact kind_format. Qed.
Print Assumptions C19_kind.

(* F06: "-$1e3" is accepted by the grammar as -1000 and stored with the sign dropped *)
Theorem C19_refuted_sign :
  exists t d r, spec_recognise loc_en t = Some d /\ parse_formatted_number loc_en t = Some r /\
                agrees_core r d = true /\ s_neg d = true /\ agrees_sign r d = false.
Proof. exists [45; 36; 49; 101; 51]. eexists. eexists. vm_compute. repeat split. Qed.
Print Assumptions C19_refuted_sign.

(* F07: misplaced group separators are recognised although the grammar rejects them *)
Definition recognised_number (L : locale) (t : text) : bool :=
  match parse_formatted_number L t with
  | Some r => match r_value r with VNum _ _ _ => true | VSerial _ => false end
  | None => false
  end.
Theorem C19_refuted_groups :
  forallb (fun t => recognised_number loc_en t && match spec_recognise loc_en t with None => true | Some _ => false end
                    && ill_grouped loc_en t)
    [ [49; 44; 44; 50; 51; 52]; [53; 44]; [53; 44; 44]; [49; 50; 51; 52; 44; 53; 54; 55]; [49; 44; 50; 51; 52; 53; 54; 55] ] = true.
Proof. vm_compute. reflexivity. Qed.
Print Assumptions C19_refuted_groups.

(* F07: "-$-5" is recognised (as +5) although the grammar allows one sign *)
Theorem C19_refuted_double_sign :
  exists t r p, parse_formatted_number loc_en t = Some r /\ spec_recognise loc_en t = None /\
                double_sign loc_en t = true /\ r_value r = VNum p false true /\ p_neg p = true.
Proof. exists [45; 36; 45; 53]. eexists. eexists. vm_compute. repeat split. Qed.
Print Assumptions C19_refuted_double_sign.

(* F08: "1e999" is recognised; the number it denotes exceeds the largest finite binary64 *)
Theorem C19_refuted_finite :
  exists t r p, parse_formatted_number loc_en t = Some r /\ r_value r = VNum p false false /\
                p_int p = [49] /\ p_frac p = [] /\ exp_value (p_exp p) = 999 /\
                (2 ^ 53 - 1) * 2 ^ 971 < 1 * 10 ^ 999.
Proof. exists [49; 101; 57; 57; 57]. eexists. eexists. vm_compute. repeat split. Qed.
Print Assumptions C19_refuted_finite.
