(* Props/C11.v — Text inputs never crash the engine: the PROVED part.
   Index safety of the formula lexer's cursor arithmetic (Syntax/LexerSafe.v mirrors
   base/src/expressions/lexer/{mod.rs,ranges.rs,structured_references.rs} with [Panic] as the
   explicit outcome of `chars[i]` out of range, a malformed slice, or a usize underflow).

   Every theorem below is for ALL input texts, ALL cursor positions in range and ALL
   instantiations of the decision oracles (character classes, number parsing, column and row
   validity, language data).  [okz chars p r] / [okp chars p r] read: r is not Panic, and if it is
   [Ok (.., q)] then [0 <= q <= len + 1] and ([p <= q] or [q = len]) — the cursor stays in range
   and only moves forward or to the end ([Err] = the model ran out of loop fuel, which cannot
   happen with fuel = length of the text and is excluded, not assumed).

   NOT proved here (tied and searched only, see notes/C11.md): the composition of these consumers
   in `next_token` (dispatch, identifier arm, R1C1 references with their recursive `expect`, the
   structured-reference grammar), the parser, completion, set_user_input.  F4 cycling and the
   number-format token walk have their own theorems (Props/C34.v, Props/C20.v).
   Statements only; every proof is [exact <lemma>] into Syntax/LexerSafeProofs.v. *)
From IronCalc Require Import Base.Prelude Syntax.LexerSafe Syntax.LexerSafeProofs.

(* the character loops: `while position < len { chars[position] ... position += 1 }` *)
Theorem C11_lexer_scan_safe :
  forall chars pred n p, 0 <= p <= len chars + 1 -> okz chars p (scan chars pred n p).
Proof. exact scan_post. Qed.
Print Assumptions C11_lexer_scan_safe.

(* consume_number: integer part, decimal part, `position + 1 < len`, `chars[position + 1]` *)
Theorem C11_lexer_consume_number_safe :
  forall chars decimal f64_ok first p,
  0 <= p <= len chars + 1 -> okp chars p (consume_number chars decimal f64_ok first p).
Proof. exact consume_number_post. Qed.
Print Assumptions C11_lexer_consume_number_safe.

Theorem C11_lexer_consume_integer_safe :
  forall chars i32_of first p,
  0 <= p <= len chars + 1 -> okp chars p (consume_integer chars i32_of first p).
Proof. exact consume_integer_post. Qed.
Print Assumptions C11_lexer_consume_integer_safe.

(* consume_identifier: the slice `chars[self.position..position]` *)
Theorem C11_lexer_consume_identifier_safe :
  forall chars alnum p, 0 <= p <= len chars -> okp chars p (consume_identifier chars alnum p).
Proof. exact consume_identifier_post. Qed.
Print Assumptions C11_lexer_consume_identifier_safe.

(* consume_string: `chars[position]` after `position += 1` *)
Theorem C11_lexer_consume_string_safe :
  forall chars p, 0 <= p <= len chars + 1 -> okp chars p (consume_string chars p).
Proof. exact consume_string_post. Qed.
Print Assumptions C11_lexer_consume_string_safe.

(* consume_single_quote_string: `chars[self.position..position - 1]` (usize subtraction + slice) *)
Theorem C11_lexer_consume_single_quote_string_safe :
  forall chars p, 0 <= p <= len chars + 1 -> okp chars p (consume_single_quote_string chars p).
Proof. exact consume_single_quote_string_post. Qed.
Print Assumptions C11_lexer_consume_single_quote_string_safe.

(* consume_error: `chars[self.position - 1..self.len]` and `position += name.chars().count() - 1`,
   for every language whose error names are non-empty *)
Theorem C11_lexer_consume_error_safe :
  forall chars errnames, Forall (fun n => n <> []) errnames ->
  forall p, 1 <= p <= len chars -> okp chars p (consume_error chars errnames p).
Proof. exact consume_error_post. Qed.
Print Assumptions C11_lexer_consume_error_safe.

(* ranges.rs consume_reference_a1 and consume_range_a1, including the row / column range path
   that restarts from the saved cursor (`self.position = position`) — the entry point of the
   `3:5` re-lex in next_token *)
Theorem C11_lexer_consume_reference_a1_safe :
  forall chars i32_of col_ok p,
  0 <= p <= len chars + 1 -> okp chars p (consume_reference_a1 chars i32_of col_ok p).
Proof. exact consume_reference_a1_post. Qed.
Print Assumptions C11_lexer_consume_reference_a1_safe.

Theorem C11_lexer_consume_range_a1_safe :
  forall chars i32_of col_ok p,
  0 <= p <= len chars + 1 -> okp chars p (consume_range_a1 chars i32_of col_ok p).
Proof. exact consume_range_a1_post. Qed.
Print Assumptions C11_lexer_consume_range_a1_safe.

(* expect_char (the R1C1 reader's cursor steps) *)
Theorem C11_lexer_expect_char_safe :
  forall chars c p, 0 <= p <= len chars + 1 -> okp chars p (expect_char chars c p).
Proof. exact expect_char_post. Qed.
Print Assumptions C11_lexer_expect_char_safe.

(* structured references: `chars[self.position..self.len]` and `chars[self.position..position]` *)
Theorem C11_lexer_consume_table_specifier_safe :
  forall chars p, 0 <= p <= len chars + 1 -> okp chars p (consume_table_specifier chars p).
Proof. exact consume_table_specifier_post. Qed.
Print Assumptions C11_lexer_consume_table_specifier_safe.

Theorem C11_lexer_consume_column_reference_safe :
  forall chars wsp p, 0 <= p <= len chars -> okp chars p (consume_column_reference chars wsp p).
Proof. exact consume_column_reference_post. Qed.
Print Assumptions C11_lexer_consume_column_reference_safe.

(* The natural invariant `position <= len` is REFUTED for the lexer as it stands: "R[" (or
   "Table1[abc") in A1 mode leaves the cursor at len + 1.  No index is taken there (every later
   access is guarded by `position < len`), which is why the postcondition above is `<= len + 1`;
   callers that slice the formula text with `get_position()` must not assume `<= len`. *)
Theorem C11_cursor_within_text_refuted : ~ cursor_within_text.
Proof. exact cursor_within_text_refuted. Qed.
Print Assumptions C11_cursor_within_text_refuted.

(* non-vacuity of the witness: the executable instantiation of the model on "R[" *)
Example C11_cursor_beyond_len_witness :
  Exec.lex w_tab [] Exec.TRUE_ Exec.FALSE_ true 46 w_chars = Ok [(K_STRUCTURED, 3); (K_EOF, 3)].
Proof. exact cursor_beyond_len_witness. Qed.
Print Assumptions C11_cursor_beyond_len_witness.
