(* Props/C18.v — Re-entering a cell's displayed content reproduces the cell.
   Statements only. Cells are those produced by user input ([apply_input]); the displayed content of
   number and formula cells is an oracle input (see UserModel/Reenter.v), so the theorems here cover
   strings, quote-prefixed text, booleans and errors; numbers, dates and formulas are covered by the
   correspondence run and the oracle on the implementation. *)
From IronCalc Require Import Base.Prelude Base.Dec Num.Recognise UserModel.Reenter UserModel.ReenterProofs
  Generated.Locales_c19.

(* strings stay strings even when they look like numbers, dates, booleans, errors or formulas:
   for EVERY locale, language, previous cell state and typed text *)
Theorem C18_strings :
  forall L G old v oracle,
  let c := apply_input L G old v in
  is_text c = true -> apply_input L G c (display G oracle c) = c.
Proof. exact strings_reenter. Qed.
Print Assumptions C18_strings.

Example C18_strings_nonvacuous :
  let c := apply_input loc_en lang_en empty_cell [39; 49; 50; 51] in
  is_text c = true /\ display lang_en [] c = [39; 49; 50; 51] /\
  is_text (apply_input loc_en lang_en empty_cell [49; 44; 53]) = true.
Proof. vm_compute. repeat split. Qed.

(* booleans stay booleans in English, in each of the locales of the built code *)
Theorem C18_bool_en :
  forallb (fun kl => bool_ok (snd kl) lang_en) locales = true.
Proof. vm_compute. reflexivity. Qed.
Print Assumptions C18_bool_en.

(* F13: in every other language the displayed boolean is re-entered as text, in every locale *)
Theorem C18_bool_refuted :
  forallb (fun kg => forallb (fun kl =>
     match user_input (snd kl) (snd kg) (g_true (snd kg)), user_input (snd kl) (snd kg) (g_false (snd kg)) with
     | IText _, IText _ => true
     | _, _ => false
     end) locales)
    (filter (fun kg => negb (text_eqb (fst kg) [101; 110])) languages) = true /\
  let c := apply_input loc_es lang_es empty_cell [116; 114; 117; 101] in
  c_val c = VBool true /\ display lang_es [] c = [86; 69; 82; 68; 65; 68; 69; 82; 79] /\
  c_val (apply_input loc_es lang_es c (display lang_es [] c)) = VText [86; 69; 82; 68; 65; 68; 69; 82; 79].
Proof. split; vm_compute; [reflexivity | repeat split]. Qed.
Print Assumptions C18_bool_refuted.

(* error values come back as the same error, in all languages x locales of the built code *)
Theorem C18_errors :
  forallb (fun kg => forallb (fun kl => errors_ok (snd kl) (snd kg)) locales) languages = true.
Proof. vm_compute. reflexivity. Qed.
Print Assumptions C18_errors.

(* the partial statement: every cell produced by user input that is not a number and not a formula
   is reproduced, provided (lang = en or the cell is not a boolean); the two table facts are
   C18_bool_en and C18_errors for the built tables *)
Theorem C18_partial :
  forall L G old v oracle,
  let c := apply_input L G old v in
  (is_bool c = true -> bool_ok L G = true) ->
  (is_error c = true -> errors_ok L G = true) ->
  is_number c = false -> is_formula c = false -> is_empty_quoted c = false ->
  apply_input L G c (display G oracle c) = c.
Proof. exact nontext_reenter. Qed.
Print Assumptions C18_partial.

(* new finding: a quote-prefixed cell that was emptied shows "'" and re-entering that makes it a
   text cell holding the empty string *)
Theorem C18_empty_quoted_refuted :
  let c0 := apply_input loc_en lang_en empty_cell [39; 97] in
  let c := apply_input loc_en lang_en c0 [] in
  c_val c = VEmpty /\ display lang_en [] c = [39] /\
  c_val (apply_input loc_en lang_en c (display lang_en [] c)) = VText [].
Proof. vm_compute. repeat split. Qed.
Print Assumptions C18_empty_quoted_refuted.
