(* Props/C32.v — Defined names are stable under edits.
   Statements only; proofs in Syntax/RenameNameProofs.v, Syntax/LocalizeProofs.v (C10) and
   Sheet/PersistProofs.v (C26).

   Code: update_defined_name (model.rs:3666) re-parses every stored formula, runs
   rename_defined_name_in_node over the tree and stores to_rc_format of it; the name table
   parsed_defined_names is rebuilt with the new key.  rename_sheet_by_index (new_empty.rs)
   re-parses every defined-name formula and stores it back — in English since commit 9f60d5e.
   update_defined_name's loop likewise since commit 0ec334c (finding F67 is repaired).
   Findings left: the capture of a free identifier by the new name (C32_rename_capture); F70 / F71
   (harness). *)
From IronCalc Require Import Base.Prelude Codec.RefA1 Syntax.Token Syntax.Ast Syntax.Printer Syntax.Parser Syntax.Shape
  Syntax.Localize Syntax.LocalizeProofs Syntax.RenameName Syntax.RenameNameProofs Syntax.RenameNameExamples.
From IronCalc Require Sheet.Persist Sheet.PersistProofs.

(* ---- renaming a name: the AST pass rewrites exactly the DefinedNameKind (n, scope) nodes -------- *)
(* [erase]: the tree with the spelling of every DefinedNameKind blanked — everything else;
   [defnames]: the DefinedNameKind leaves, left to right.  The pass changes no other node, keeps
   every leaf in place, rewrites a leaf iff its lower-cased name and its scope match, and returns a
   tree without a matching leaf unchanged. *)
Theorem C32_rename_name :
  forall (lower : text -> text) (name : text) (scope : option Z) (new_name : text) (e : ast),
  erase (rename lower name scope new_name e) = erase e /\
  defnames (rename lower name scope new_name e) =
    map (fun x => let '(n, s, f) := x in if hit lower name scope n s then (new_name, s, f) else (n, s, f)) (defnames e) /\
  kind_of (rename lower name scope new_name e) = kind_of e /\
  (forallb (fun x => negb (hit lower name scope (fst (fst x)) (snd (fst x)))) (defnames e) = true ->
   rename lower name scope new_name e = e).
Proof.
  exact (fun lower name scope new_name e =>
    conj (rename_erase lower name scope new_name e)
   (conj (rename_defnames lower name scope new_name e)
   (conj (rename_kind lower name scope new_name e) (rename_no_hit lower name scope new_name e)))).
Qed.
Print Assumptions C32_rename_name.

(* ... without changing any computed value: the name table is re-keyed by the same function, so
   every look-up finds what it found before — provided the new key was not in the table
   (update_defined_name refuses otherwise) and the looked-up key is not the new one *)
Theorem C32_rename_values :
  forall (V : Type) (old new : nkey) (tbl : list (nkey * V)) (k : nkey),
  find_name new tbl = None -> k <> new ->
  find_name (ren_key old new k) (ren_table old new tbl) = find_name k tbl.
Proof. exact (@find_renamed). Qed.
Print Assumptions C32_rename_values.

(* the excluded case is real: an identifier spelled like the NEW name was no name before the
   rename (#NAME?) and is the renamed name afterwards *)
Theorem C32_rename_capture :
  let old : nkey := (None, [97]) in let new : nkey := (None, [98]) in
  let tbl : list (nkey * Z) := [(old, 1)] in
  find_name new tbl = None /\ find_name (ren_key old new new) (ren_table old new tbl) = Some 1.
Proof. exact capture_witness. Qed.
Print Assumptions C32_rename_capture.

(* ---- language and locale: stored names unchanged by switches (from C10) ---------------------- *)
Theorem C32_language :
  forall (C : Type) (valid_locale valid_lang : text -> bool)
         (evaluate : list (list text) -> list (text * option Z * text) -> text -> text -> C -> C)
         (id : text) (m m' : lmodel C),
  (set_language C valid_lang id m = Ok m' -> l_defnames m' = l_defnames m) /\
  (set_locale C valid_locale evaluate id m = Ok m' -> l_defnames m' = l_defnames m).
Proof.
  exact (fun C vl vg ev id m m' =>
    conj (fun H => f_equal (fun s => snd (fst s)) (proj1 (set_language_stores C vg id m m' H)))
         (fun H => f_equal (fun s => snd (fst s)) (proj1 (set_locale_stores C vl ev id m m' H)))).
Qed.
Print Assumptions C32_language.

(* ---- renaming a sheet the name does not mention --------------------------------------------------
   rename_sheet_by_index parses the stored formula of every name and prints it back, both in
   ENGLISH since commit 9f60d5e ([m], [nm]: that one configuration).  The stored text of a name that
   does not mention the renamed sheet survives, whatever the user's language and locale. *)
Theorem C32_other_sheets :
  forall m nm env (rename_sheet : ast -> ast) e,
  image m nm env e = true -> no_bad (pm_xlsx m) e = true -> lower_stable nm e = true ->
  rename_sheet e = e ->
  name_formula_after_rename m nm env rename_sheet (print m nm e) = print m nm e.
Proof. exact other_sheet_rename_keeps_formula. Qed.
Print Assumptions C32_other_sheets.

(* ---- renaming a name updates every formula that uses it -------------------------------------------
   update_defined_name re-reads every stored formula with the ENGLISH parser (since commit 0ec334c;
   the user's locale and language are saved and restored around the loop), runs the pass and
   prints the stored form.  For EVERY locale [dot_active] and language [nm_active] of the user the
   new stored text is the stored print of the renamed tree — the C09 theorem in the stored form
   (its premises: a tree the parser returns, none of the three associative bare pairs, F62);
   with C32_rename_name: exactly the uses of the name are rewritten. *)
Theorem C32_rename_in_formulas :
  forall (dot_active : bool) (nm_active nm : names) env (lower : text -> text) name scope new_name e,
  image (m_rc_of true) nm env e = true -> no_bad false e = true -> lower_stable nm e = true ->
  formula_after_name_rename dot_active nm_active nm env lower name scope new_name (print (m_rc_of true) nm e)
  = print (m_rc_of true) nm (rename lower name scope new_name e).
Proof. exact name_rename_in_formula. Qed.
Print Assumptions C32_rename_in_formulas.

(* ---- one update that changes name AND scope: which formulas are rewritten ----------------------------
   update_defined_name(name, scope, new_name, new_scope, formula) calls the pass with the OLD scope:
   a DefinedNameKind leaf of that name is rewritten iff its scope is the old scope of the name — the
   formulas that resolved to the old (name, scope) —, a leaf of the same name in another scope (a
   shadowing local / the shadowed global) is left alone, and the new scope does not enter at all.
   (After such an update a formula outside the new scope shows #NAME?: the re-parse, not the pass.) *)
Theorem C32_rename_matches_old_scope :
  (forall lower name scope new_name n s f,
     (s = scope -> lower name = lower n -> rename lower name scope new_name (EDefName n s f) = EDefName new_name s f) /\
     (s <> scope -> rename lower name scope new_name (EDefName n s f) = EDefName n s f)) /\
  (forall nm env lower name scope new_name ns1 ns2 stored,
     update_name_in_formula nm env lower name scope new_name ns1 stored
     = update_name_in_formula nm env lower name scope new_name ns2 stored) /\
  (forall nm env lower name scope new_name new_scope e,
     image (m_rc_of true) nm env e = true -> no_bad false e = true -> lower_stable nm e = true ->
     update_name_in_formula nm env lower name scope new_name new_scope (print (m_rc_of true) nm e)
     = if text_eqb new_name name then print (m_rc_of true) nm e
       else print (m_rc_of true) nm (rename lower name scope new_name e)).
Proof. exact (conj rename_leaf_scope (conj update_ignores_new_scope update_name_in_formula_spec)). Qed.
Print Assumptions C32_rename_matches_old_scope.

(* ---- both file round trips: the binary format keeps workbook.defined_names (C26) ---------------- *)
Theorem C32_roundtrip_binary :
  forall (W B : Type) (enc : W -> B) (dec : B -> option W), (forall w, dec (enc w) = Some w) ->
  forall (PN : Type) (view : W -> Persist.wb_view) (parse_names : Persist.wb_view -> PN) (cf_eval : W -> W),
  (forall w, view (cf_eval w) = view w) -> (forall w, Persist.v_has_cf (view w) = false -> cf_eval w = w) ->
  forall (valid_locale valid_tz valid_lang : text -> bool) (lex_rc : text -> list token) (nm : names)
         (m m' : Persist.model W PN) (lang : text),
  Persist.from_bytes W B dec PN view parse_names cf_eval valid_locale valid_tz valid_lang lex_rc nm (Persist.to_bytes W B enc PN m) lang = Ok m' ->
  Persist.v_defnames (view (Persist.m_wb m')) = Persist.v_defnames (view (Persist.m_wb m)) /\
  Persist.m_names m' = parse_names (view (Persist.m_wb m)).
Proof.
  exact (fun W B enc dec H PN view pn cf H1 H2 vl vt vg lex nm m m' lang Hl =>
    let P := PersistProofs.load_save_workbook W B enc dec PN view pn cf vl vt vg lex nm H H1 H2 m lang m' Hl in
    conj (f_equal Persist.v_defnames (proj1 (proj2 P))) (proj2 (proj2 (proj2 (proj2 (proj2 P)))))).
Qed.
Print Assumptions C32_roundtrip_binary.

(* non-vacuity *)
Example C32_nonvacuous :
  (image en11 (names_of 0) env1 lam_sum = true /\ no_bad false lam_sum = true /\ lower_stable (names_of 0) lam_sum = true /\
   image en11 (names_of 0) env1 ref_a1 = true) /\
  rename lower t_name1 None t_renamed uses = ESum SAdd (dn t_renamed) (EFun 80 [dn t_renamed; dn t_other]) /\
  (* the former F67 witnesses: a French user renames G in TRIM(G); a comma-locale user in SUM(G,2) *)
  ((image (m_rc_of true) (names_of 0) env_g trim_g = true /\ no_bad false trim_g = true /\ lower_stable (names_of 0) trim_g = true) /\
   formula_after_name_rename true (names_of 3) (names_of 0) env_g lower t_g None t_h (print (m_rc_of true) (names_of 0) trim_g)
     = print (m_rc_of true) (names_of 0) (EFun 137 [EDefName t_h None f_g]) /\
   formula_after_name_rename false (names_of 0) (names_of 0) env_g lower t_g None t_h (print (m_rc_of true) (names_of 0) sum_g2)
     = print (m_rc_of true) (names_of 0) (EFun 80 [EDefName t_h None f_g; ENum [50]])).
Proof. exact (conj other_sheet_premises (conj rename_example name_rename_former_witnesses)). Qed.
