(* Props/C29.v — Row and column attributes change independently.
   Statements only; every proof is [exact <lemma>] into Sheet/ColsProofs.v and Sheet/RowsProofs.v.

   Vocabulary (Sheet/Cols.v, Sheet/Rows.v): a layout is the vector of column descriptors
   [cols]; [wf] = sorted by min, min <= max, pairwise disjoint, inside the grid.  An operation
   [cop] is set width / set hidden / set style / delete style on a column; [apply_cop] is the
   code's function ([Err] when the call is refused), [step_cop] keeps the state on [Err].
   [get up attr cs j] are the getters get_actual_column_width / is_column_hidden /
   get_column_style.  [down]/[up] are the f64 operations w / COLUMN_WIDTH_FACTOR and
   x * COLUMN_WIDTH_FACTOR; the only fact used is the premise [forall w, up (down w) = w].
   [defect_cop] is the (tight) class of steps on which the code breaks the property (F23). *)
From IronCalc Require Import Base.Prelude Sheet.Cols Sheet.ColsProofs Sheet.Rows Sheet.RowsProofs.

(* ---- columns: well-formedness is an invariant (reused by C27) -------------------------------- *)
Theorem C29_cols_wf_preserved :
  forall down up cs o cs', wf cs -> apply_cop down up cs o = Ok cs' -> wf cs'.
Proof. exact apply_cop_wf. Qed.
Print Assumptions C29_cols_wf_preserved.

Theorem C29_cols_wf_history :
  forall down up cs os, wf cs -> wf (run_cops down up cs os).
Proof. exact run_cops_wf. Qed.
Print Assumptions C29_cols_wf_history.

(* ---- columns: no operation ever touches another column (any layout, no premise) ---------------- *)
Theorem C29_cols_other_columns :
  forall down up cs o cs' j' attr',
  apply_cop down up cs o = Ok cs' -> j' <> cop_col o ->
  get up attr' cs' j' = get up attr' cs j'.
Proof. exact cols_other_columns_get. Qed.
Print Assumptions C29_cols_other_columns.

(* ---- columns: the property at full strength is FALSE of the code ------------------------------- *)
Theorem C29_cols_frame_refuted : ~ cols_frame_statement idz idz.
Proof. exact cols_frame_statement_refuted. Qed.
Print Assumptions C29_cols_frame_refuted.

Theorem C29_cols_readback_refuted : ~ cols_readback_statement idz idz.
Proof. exact cols_readback_statement_refuted. Qed.
Print Assumptions C29_cols_readback_refuted.

(* the three witnesses (replayed on the implementation by the harness oracle) *)
Theorem C29_refuted_style_in_range :
  exists cs j s cs', wf cs /\ set_column_style idz idz cs j s = Ok cs' /\
                     style_at cs' j <> Some s /\ defect_cop idz cs (SetStyle j s) = true.
Proof. exact style_in_range_refuted. Qed.
Print Assumptions C29_refuted_style_in_range.

Theorem C29_refuted_hidden_width :
  exists cs j s cs' cs'', wf cs /\ set_column_style idz idz cs j s = Ok cs' /\
    set_column_hidden idz idz cs' j false = Ok cs'' /\
    width_at idz cs j = 45 /\ width_at idz cs' j = 0 /\ width_at idz cs'' j = 0 /\
    defect_cop idz cs (SetStyle j s) = true.
Proof. exact hidden_width_refuted. Qed.
Print Assumptions C29_refuted_hidden_width.

Theorem C29_refuted_delete_unhides :
  exists cs j cs', wf cs /\ delete_column_style cs j = Ok cs' /\
    hidden_at cs j = true /\ hidden_at cs' j = false /\ defect_cop idz cs (DelStyle j) = true.
Proof. exact delete_unhides_refuted. Qed.
Print Assumptions C29_refuted_delete_unhides.

(* ---- columns: the property outside the defect class --------------------------------------------- *)
(* FRAME: every other (column, attribute) pair keeps its value, also when the call is refused *)
Theorem C29_cols_frame_partial :
  forall down up, (forall w, up (down w) = w) ->
  forall cs o j' attr',
  wf cs -> defect_cop up cs o = false -> (cop_col o, cop_attr o) <> (j', attr') ->
  get up attr' (step_cop down up cs o) j' = get up attr' cs j'.
Proof. exact cols_frame. Qed.
Print Assumptions C29_cols_frame_partial.

(* READ-BACK: the pair that was set has the value that was set *)
Theorem C29_cols_readback_partial :
  forall down up, (forall w, up (down w) = w) ->
  forall cs o cs',
  wf cs -> defect_cop up cs o = false -> apply_cop down up cs o = Ok cs' ->
  get up (cop_attr o) cs' (cop_col o) = cop_val o.
Proof. exact cols_readback. Qed.
Print Assumptions C29_cols_readback_partial.

(* width and hidden operations satisfy FRAME on every well-formed layout *)
Theorem C29_width_hidden_frame :
  forall down up, (forall w, up (down w) = w) ->
  forall cs o j' attr',
  wf cs -> (match o with SetWidth _ _ | SetHidden _ _ => True | _ => False end) ->
  (cop_col o, cop_attr o) <> (j', attr') ->
  get up attr' (step_cop down up cs o) j' = get up attr' cs j'.
Proof. exact cols_frame_width_hidden. Qed.
Print Assumptions C29_width_hidden_frame.

(* HISTORIES: after any sequence of operations none of which falls in the defect class, the
   getters read three independent total maps updated pointwise *)
Theorem C29_cols_history_partial :
  forall down up, (forall w, up (down w) = w) ->
  forall cs os,
  wf cs -> clean_run down up cs os = true ->
  agrees up (run_cops down up cs os) (fold_left abs_step os (abs_of (width_at up) cs)).
Proof. exact cols_history. Qed.
Print Assumptions C29_cols_history_partial.

(* the class is tight: every step inside it breaks the point-update reading *)
Theorem C29_cols_defect_class_tight :
  forall down up, (forall w, up (down w) = w) ->
  forall cs o,
  wf cs -> defect_cop up cs o = true ->
  ~ agrees up (step_cop down up cs o) (abs_step (abs_of (width_at up) cs) o).
Proof. exact defect_is_real. Qed.
Print Assumptions C29_cols_defect_class_tight.

(* what set_column_style and delete_column_style do to the column itself, as the code is *)
Theorem C29_set_style_as_is :
  forall down up, (forall w, up (down w) = w) ->
  forall cs j s cs', wf cs -> set_column_style down up cs j s = Ok cs' ->
  hidden_at cs' j = hidden_at cs j /\
  style_at cs' j = (if spans cs j then style_at cs j else Some s) /\
  width_at up cs' j = (if hidden_at cs j then 0 else width_at up cs j).
Proof. exact set_style_same. Qed.
Print Assumptions C29_set_style_as_is.

Theorem C29_delete_style_as_is :
  forall up cs j cs', wf cs -> delete_column_style cs j = Ok cs' ->
  style_at cs' j = None /\ width_at up cs' j = width_at up cs j /\ hidden_at cs' j = false.
Proof. exact del_style_same. Qed.
Print Assumptions C29_delete_style_as_is.

(* non-vacuity: a clean history over a layout with a 4-column descriptor and one at 16384 *)
Example C29_nonvacuous :
  let cs := [mkCol 2 5 5 true false (Some 1); mkCol 16384 16384 20 true true None] in
  let os := [SetWidth 3 45; SetHidden 4 true; SetStyle 9 2; DelStyle 3; SetHidden 16384 false; SetStyle 3 1] in
  wf_b cs = true /\ clean_run idz idz cs os = true /\
  run_cops idz idz cs os =
    [mkCol 2 2 5 true false (Some 1); mkCol 3 3 45 true false (Some 1); mkCol 4 4 5 true true (Some 1);
     mkCol 5 5 5 true false (Some 1); mkCol 9 9 90 false false (Some 2);
     mkCol 16384 16384 20 true false None].
Proof. exact clean_history_example. Qed.

(* ---- rows: the property holds at full strength (any vector of records, any history) ----------- *)
Theorem C29_rows_frame :
  forall down up, (forall w, up (down w) = w) ->
  forall rs o r' attr',
  (rop_row o, rop_attr o) <> (r', attr') ->
  rget up attr' (step_rop down rs o) r' = rget up attr' rs r'.
Proof. exact rows_frame. Qed.
Print Assumptions C29_rows_frame.

Theorem C29_rows_readback :
  forall down up, (forall w, up (down w) = w) ->
  forall rs o rs',
  apply_rop down rs o = Ok rs' -> rget up (rop_attr o) rs' (rop_row o) = rop_val o.
Proof. exact rows_readback. Qed.
Print Assumptions C29_rows_readback.

Theorem C29_rows_history :
  forall down up, (forall w, up (down w) = w) ->
  forall rs os,
  ragrees up (run_rops down rs os) (fold_left abs_rstep os (abs_rof (rheight_at up) rs)).
Proof. exact rows_history. Qed.
Print Assumptions C29_rows_history.

(* Model::get_row_style (Some as soon as a record exists) is the one row getter that is not a
   function of the three maps: it changes, without a style operation, exactly when the step
   creates the record *)
Theorem C29_get_row_style_partial :
  forall down rs o r',
  (match o with SetRowStyle r _ | DelRowStyle r => r <> r' | _ => True end) ->
  get_row_style (step_rop down rs o) r' =
  if materialises rs o && (rop_row o =? r') then Some 0 else get_row_style rs r'.
Proof. exact get_row_style_frame. Qed.
Print Assumptions C29_get_row_style_partial.

Theorem C29_refuted_row_style_materialises :
  exists rs r h rs', set_row_height (fun z => z) rs r h = Ok rs' /\
                     get_row_style rs r = None /\ get_row_style rs' r = Some 0.
Proof. exact row_style_materialises_refuted. Qed.
Print Assumptions C29_refuted_row_style_materialises.
