(* Props/C29.v — Row and column attributes change independently.
   Statements only; every proof is [exact <lemma>] into Sheet/ColsProofs.v and Sheet/RowsProofs.v.

   Vocabulary (Sheet/Cols.v, Sheet/Rows.v): a layout is the vector of column descriptors
   [cols]; [wf] = sorted by min, min <= max, pairwise disjoint, inside the grid.  An operation
   [cop] is set width / set hidden / set style / delete style on a column; [apply_cop] is the
   code's function ([Err] when the call is refused), [step_cop] keeps the state on [Err].
   [get up attr cs j] are the getters get_actual_column_width / is_column_hidden /
   get_column_style.  [down]/[up] are the f64 operations w / COLUMN_WIDTH_FACTOR and
   x * COLUMN_WIDTH_FACTOR; the only fact used is the premise [forall w, up (down w) = w].

   The full statements are the definitions
     cols_frame_statement    := forall cs o j' attr', wf cs -> (cop_col o, cop_attr o) <> (j', attr') ->
                                get up attr' (step_cop down up cs o) j' = get up attr' cs j'
     cols_readback_statement := forall cs o cs', wf cs -> apply_cop down up cs o = Ok cs' ->
                                get up (cop_attr o) cs' (cop_col o) = cop_val o
     cols_history_statement  := forall cs os, wf cs ->
                                agrees up (run_cops down up cs os) (fold_left abs_step os (abs_of (width_at up) cs))
   in Sheet/Cols.v.  They were refuted for the code before the repair of F23a/b/c (acf9a86,
   ae7cffd, 973383c); the model follows the repaired code and they are now proved. *)
From IronCalc Require Import Base.Prelude Sheet.Cols Sheet.ColsProofs Sheet.Rows Sheet.RowsProofs.

(* ---- columns: well-formedness is an invariant (reused by C27) -------------------------------- *)
Theorem C29_cols_wf_preserved :
  forall down up cs o cs', wf cs -> apply_cop down up cs o = Ok cs' -> wf cs'.
Proof. exact apply_cop_wf. Qed.
Print Assumptions C29_cols_wf_preserved.

Theorem C29_cols_wf_history :
  forall down up cs os, wf cs -> wf (run_cops down up cs os).
Proof. exact run_cops_wf. Qed.
Print Assumptions C29_cols_wf_history.

(* ---- columns: no operation ever touches another column (any layout, no premise) ---------------- *)
Theorem C29_cols_other_columns :
  forall down up cs o cs' j' attr',
  apply_cop down up cs o = Ok cs' -> j' <> cop_col o ->
  get up attr' cs' j' = get up attr' cs j'.
Proof. exact cols_other_columns_get. Qed.
Print Assumptions C29_cols_other_columns.

(* ---- columns: the property at full strength ------------------------------------------------------ *)
(* FRAME: every other (column, attribute) pair keeps its value, also when the call is refused *)
Theorem C29_cols_frame :
  forall down up, (forall w, up (down w) = w) -> cols_frame_statement down up.
Proof. exact cols_frame. Qed.
Print Assumptions C29_cols_frame.

(* READ-BACK: the pair that was set has the value that was set *)
Theorem C29_cols_readback :
  forall down up, (forall w, up (down w) = w) -> cols_readback_statement down up.
Proof. exact cols_readback. Qed.
Print Assumptions C29_cols_readback.

(* HISTORIES: after any sequence of operations the getters read three independent total maps
   updated pointwise *)
Theorem C29_cols_history :
  forall down up, (forall w, up (down w) = w) -> cols_history_statement down up.
Proof. exact cols_history. Qed.
Print Assumptions C29_cols_history.

(* the same, spelled out *)
Theorem C29_cols_frame_explicit :
  forall down up, (forall w, up (down w) = w) ->
  forall cs o j' attr',
  wf cs -> (cop_col o, cop_attr o) <> (j', attr') ->
  get up attr' (step_cop down up cs o) j' = get up attr' cs j'.
Proof. exact cols_frame. Qed.
Print Assumptions C29_cols_frame_explicit.

(* what set_column_style and delete_column_style do to the column itself *)
Theorem C29_set_style_same_column :
  forall down up, (forall w, up (down w) = w) ->
  forall cs j s cs', set_column_style down up cs j s = Ok cs' ->
  style_at cs' j = Some s /\ width_at up cs' j = width_at up cs j /\ hidden_at cs' j = hidden_at cs j.
Proof. exact set_style_same. Qed.
Print Assumptions C29_set_style_same_column.

Theorem C29_delete_style_same_column :
  forall up cs j cs', wf cs -> delete_column_style cs j = Ok cs' ->
  style_at cs' j = None /\ width_at up cs' j = width_at up cs j /\ hidden_at cs' j = hidden_at cs j.
Proof. exact del_style_same. Qed.
Print Assumptions C29_delete_style_same_column.

(* the former witnesses of F23a/b/c, as regression examples on the model *)
Example C29_former_witnesses_pass :
  (exists cs', set_column_style idz idz [mkCol 2 5 5 true false None] 3 7 = Ok cs' /\
               style_at cs' 3 = Some 7 /\ style_at cs' 2 = None /\ style_at cs' 4 = None) /\
  (exists cs', set_column_style idz idz [mkCol 3 3 45 true true None] 3 7 = Ok cs' /\
               width_at idz cs' 3 = 45 /\ hidden_at cs' 3 = true) /\
  (exists cs', delete_column_style [mkCol 3 3 45 true true (Some 7)] 3 = Ok cs' /\
               hidden_at cs' 3 = true /\ style_at cs' 3 = None) /\
  (exists cs', delete_column_style [mkCol 2 4 5 false true (Some 7)] 3 = Ok cs' /\
               hidden_at cs' 3 = true /\ style_at cs' 3 = None /\ style_at cs' 2 = Some 7).
Proof. exact former_witnesses_pass. Qed.

(* non-vacuity: a history over a layout with a 4-column descriptor and one at 16384 *)
Example C29_nonvacuous :
  let cs := [mkCol 2 5 5 true false (Some 1); mkCol 16384 16384 20 true true None] in
  let os := [SetWidth 3 45; SetHidden 4 true; SetStyle 9 2; DelStyle 3; SetHidden 16384 false; SetStyle 3 1;
             SetStyle 4 2; DelStyle 4] in
  wf_b cs = true /\
  run_cops idz idz cs os =
    [mkCol 2 2 5 true false (Some 1); mkCol 3 3 45 true false (Some 1); mkCol 4 4 5 true true None;
     mkCol 5 5 5 true false (Some 1); mkCol 9 9 90 false false (Some 2);
     mkCol 16384 16384 20 true false None].
Proof. exact history_example. Qed.

(* ---- rows: the property holds at full strength (any vector of records, any history) ----------- *)
Theorem C29_rows_frame :
  forall down up, (forall w, up (down w) = w) ->
  forall rs o r' attr',
  (rop_row o, rop_attr o) <> (r', attr') ->
  rget up attr' (step_rop down rs o) r' = rget up attr' rs r'.
Proof. exact rows_frame. Qed.
Print Assumptions C29_rows_frame.

Theorem C29_rows_readback :
  forall down up, (forall w, up (down w) = w) ->
  forall rs o rs',
  apply_rop down rs o = Ok rs' -> rget up (rop_attr o) rs' (rop_row o) = rop_val o.
Proof. exact rows_readback. Qed.
Print Assumptions C29_rows_readback.

Theorem C29_rows_history :
  forall down up, (forall w, up (down w) = w) ->
  forall rs os,
  ragrees up (run_rops down rs os) (fold_left abs_rstep os (abs_rof (rheight_at up) rs)).
Proof. exact rows_history. Qed.
Print Assumptions C29_rows_history.

(* Model::get_row_style (Some as soon as a record exists) is the one row getter that is not a
   function of the three maps: it changes, without a style operation, exactly when the step
   creates the record (F23d, not repaired) *)
Theorem C29_get_row_style_partial :
  forall down rs o r',
  (match o with SetRowStyle r _ | DelRowStyle r => r <> r' | _ => True end) ->
  get_row_style (step_rop down rs o) r' =
  if materialises rs o && (rop_row o =? r') then Some 0 else get_row_style rs r'.
Proof. exact get_row_style_frame. Qed.
Print Assumptions C29_get_row_style_partial.

Theorem C29_refuted_row_style_materialises :
  exists rs r h rs', set_row_height (fun z => z) rs r h = Ok rs' /\
                     get_row_style rs r = None /\ get_row_style rs' r = Some 0.
Proof. exact row_style_materialises_refuted. Qed.
Print Assumptions C29_refuted_row_style_materialises.
