(* Props/C04.v — A failed operation changes nothing. Proved for the discipline most methods
   follow (validate, mutate, push); refuted, with the general form of the damage, for the
   two other disciplines found in common.rs. *)
From Coq Require Import List ZArith.
Import ListNotations.
From IronCalc Require Import UserModel.History UserModel.Atomic UserModel.AtomicProofs.

Theorem C04_checked_failure_changes_nothing :
  forall (St Df : Type) (apply unapply : Df -> St -> St) (item : Type)
         (valid_item : item -> St -> bool) (do_item : item -> St -> St * list Df) is (m : machine St Df),
  snd (perform_checked St Df apply unapply item valid_item do_item is m) = false ->
  fst (perform_checked St Df apply unapply item valid_item do_item is m) = m.
Proof. exact checked_failure_changes_nothing. Qed.
Print Assumptions C04_checked_failure_changes_nothing.

Theorem C04_checked_failure_then_undo :
  forall (St Df : Type) (apply unapply : Df -> St -> St) (item : Type)
         (valid_item : item -> St -> bool) (do_item : item -> St -> St * list Df) is (m : machine St Df),
  snd (perform_checked St Df apply unapply item valid_item do_item is m) = false ->
  step St Df apply unapply (fst (perform_checked St Df apply unapply item valid_item do_item is m)) Undo
  = step St Df apply unapply m Undo.
Proof. exact checked_failure_then_undo. Qed.
Print Assumptions C04_checked_failure_then_undo.

Theorem C04_push_first_failure :
  forall (St Df : Type) (item : Type) (valid_item : item -> St -> bool)
         (do_item : item -> St -> St * list Df) is intended (m : machine St Df),
  snd (perform_push_first St Df item valid_item do_item is intended m) = false ->
  let m' := fst (perform_push_first St Df item valid_item do_item is intended m) in
  st St Df m' = st St Df m /\ undo_stack St Df m' = intended :: undo_stack St Df m /\
  redo_stack St Df m' = [] /\ queue St Df m' = queue St Df m ++ [(TRedo, intended)].
Proof. exact push_first_failure. Qed.
Print Assumptions C04_push_first_failure.

Theorem C04_partial_loop_failure :
  forall (St Df : Type) (apply unapply : Df -> St -> St) (item : Type)
         (valid_item : item -> St -> bool) (do_item : item -> St -> St * list Df) is (m : machine St Df),
  snd (perform_partial St Df apply unapply item valid_item do_item is m) = false ->
  let m' := fst (perform_partial St Df apply unapply item valid_item do_item is m) in
  st St Df m' = fst (fst (run_items St Df item valid_item do_item is (st St Df m) [])) /\
  undo_stack St Df m' = undo_stack St Df m /\ redo_stack St Df m' = redo_stack St Df m /\
  queue St Df m' = queue St Df m.
Proof. exact partial_failure. Qed.
Print Assumptions C04_partial_loop_failure.

Theorem C04_push_first_refuted :
  let r := perform_push_first Z (Z * Z) Z z_valid z_do [(-1)%Z] [(5, 5)%Z] m_with_redo in
  snd r = false /\ fst r <> m_with_redo /\ redo_stack Z (Z * Z) (fst r) = [] /\
  length (undo_stack Z (Z * Z) (fst r)) = 2%nat /\ length (queue Z (Z * Z) (fst r)) = 1%nat.
Proof. exact push_first_refuted. Qed.
Print Assumptions C04_push_first_refuted.

Theorem C04_partial_loop_refuted :
  let r := perform_partial Z (Z * Z) z_apply z_unapply Z z_valid z_do [3; (-1)]%Z m_with_redo in
  snd r = false /\ st Z (Z * Z) (fst r) = 8%Z /\ st Z (Z * Z) (fst r) <> st Z (Z * Z) m_with_redo /\
  undo_stack Z (Z * Z) (fst r) = undo_stack Z (Z * Z) m_with_redo.
Proof. exact partial_loop_refuted. Qed.
Print Assumptions C04_partial_loop_refuted.
