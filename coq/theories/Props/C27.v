(* Props/C27.v — Workbook structure stays well-formed.  Statements only.
   [wf_workbook_b] (Sheet/Wf.v) is the conjunction of the property statement over the structural
   skeleton of types.rs.  Proved: the model of new_empty is well-formed and every operation of
   the set [op] keeps it so — column descriptor surgery (all of Cols.cop, reused from C29), row
   record creation / removal, style interning on the pool skeleton, shared-string push, new sheet,
   rename, delete sheet — hence every history over that set.  The spill clause is kept by the C31
   operations (evaluate an anchor, reset, prepare for input) given fullness.  Operations outside
   this set (cell edits, structural edits, paste, undo/redo, import) are monitored: the same
   predicate, extracted, judges the implementation's workbook after every step. *)
From IronCalc Require Import Base.Prelude Eval.Spill Sheet.Wf Sheet.WfProofs.
From IronCalc Require Sheet.Cols.

Theorem C27_init : wf_workbook_b init = true.
Proof. exact init_wf. Qed.
Print Assumptions C27_init.

Theorem C27_step :
  forall (down up : Z -> Z) (wb : workbook) (o : op),
  wf_workbook_b wb = true -> wf_workbook_b (step down up wb o) = true.
Proof. exact step_wf. Qed.
Print Assumptions C27_step.

Theorem C27_reachable :
  forall (down up : Z -> Z) (ops : list op), wf_workbook_b (fold_left (step down up) ops init) = true.
Proof. exact reachable_wf. Qed.
Print Assumptions C27_reachable.

Theorem C27_spill_evaluate :
  forall (spill_err calc_err : option Z) (dflt : pos -> Z) (sh sh' : vsheet) (a : pos) (res : result (option Z)),
  spill_exact_b sh = true -> spill_full_b sh = true ->
  eval_anchor spill_err calc_err dflt a res sh = Ok sh' -> spill_exact_b sh' = true /\ spill_full_b sh' = true.
Proof. exact spill_clause_eval. Qed.
Print Assumptions C27_spill_evaluate.

Theorem C27_spill_reset :
  forall (uneval : option Z) (dflt : pos -> Z) (sh : vsheet) (order : list pos),
  NoDup order -> spill_exact_b sh = true -> spill_full_b sh = true ->
  spill_exact_b (reset_spills uneval dflt order sh) = true /\ spill_full_b (reset_spills uneval dflt order sh) = true.
Proof. exact spill_clause_reset. Qed.
Print Assumptions C27_spill_reset.

Theorem C27_spill_prepare :
  forall (uneval : option Z) (dflt : pos -> Z) (sh sh' : vsheet) (p : pos),
  spill_exact_b sh = true -> spill_full_b sh = true ->
  prepare_for_input uneval dflt p sh = Ok sh' -> spill_exact_b sh' = true /\ spill_full_b sh' = true.
Proof. exact spill_clause_prepare. Qed.
Print Assumptions C27_spill_prepare.

(* the column-descriptor surgery of delete_columns (as repaired by 5240496: cases D and E push a
   descriptor only when min <= max) keeps every well-formed layout well-formed, for every band *)
Theorem C27_delete_columns_descriptors :
  forall (start count : Z) (cs cs' : Sheet.Cols.cols),
  Sheet.Cols.wf cs -> delete_columns_descrs start count cs = Ok cs' -> Sheet.Cols.wf cs'.
Proof. exact delete_columns_descrs_wf. Qed.
Print Assumptions C27_delete_columns_descriptors.

(* insert_columns: only when no descriptor is pushed past the last column (the code checks the
   cells' dimension, not the descriptors) ... *)
Theorem C27_insert_columns_descriptors_partial :
  forall (column count : Z) (cs cs' : Sheet.Cols.cols),
  Sheet.Cols.wf cs ->
  (forall c, In c cs -> column <= Sheet.Cols.c_max c -> Sheet.Cols.c_max c + count <= LAST_COLUMN) ->
  insert_columns_descrs column count cs = Ok cs' -> Sheet.Cols.wf cs'.
Proof. exact insert_columns_descrs_partial. Qed.
Print Assumptions C27_insert_columns_descriptors_partial.

(* an index outside the grid or a count <= 0 is refused: the descriptors stay as they are *)
Theorem C27_insert_columns_refused :
  forall (column count : Z) (cs : Sheet.Cols.cols),
  column < 1 \/ LAST_COLUMN < column \/ count <= 0 -> insert_columns_descrs column count cs = Err.
Proof. exact insert_columns_descrs_refused. Qed.
Print Assumptions C27_insert_columns_refused.

(* ... otherwise not: finding F47 *)
Theorem C27_insert_columns_descriptors_refuted :
  exists cs column count cs', Sheet.Cols.wf_b cs = true /\ insert_columns_descrs column count cs = Ok cs' /\
                              Sheet.Cols.wf_b cs' = false.
Proof. exact insert_columns_descrs_refuted. Qed.
Print Assumptions C27_insert_columns_descriptors_refuted.

(* non-vacuity: the predicate rejects broken structure *)
Example C27_rejects_duplicate_name :
  wf_workbook_b (mkWb [mkSheet SHEET1 SHEET1_U 1 [] [] [] 0; mkSheet SHEET1 SHEET1_U 2 [] [] [] 0] 0
                      (mkPools 1 2 1 [] [mkXfr 0 0 0 0]) []) = false.
Proof. vm_compute. reflexivity. Qed.
Example C27_rejects_dangling_style :
  wf_workbook_b (mkWb [mkSheet SHEET1 SHEET1_U 1 [((1,1), mkcell 5 KEmpty)] [] [] 0] 0
                      (mkPools 1 2 1 [] [mkXfr 0 0 0 0]) []) = false.
Proof. vm_compute. reflexivity. Qed.
Example C27_history :
  wf_workbook_b (fold_left (step (fun w => w) (fun w => w))
     [OpNewSheet [83;104;101;101;116;50] [83;72;69;69;84;50]; OpRename 0 [68] [68]; OpDeleteSheet 1; OpString;
      OpStyle None (Some 0) (Some 0) (inr 164); OpRowTouch 0 3; OpRowTouch 0 3] init) = true.
Proof. vm_compute. reflexivity. Qed.
