(* Props/C26.v — Saving to and loading from the internal binary format is lossless.
   Statements only; proofs in Sheet/PersistProofs.v and Sheet/PersistValues.v.

   Model (Sheet/Persist.v): to_bytes = enc (workbook); from_bytes = dec, then from_workbook, which
   validates settings.locale, settings.tz and the language id (in this order), keeps the workbook
   as it is and re-parses every shared formula of every worksheet (R1C1 lexer, English tables,
   [Syntax.Parser.parse] in the stored form) and the defined names.
   Parameters, each an explicit premise and each checked on every run by harness/c26:
     [codec]   dec (enc w) = Some w               bitcode; `Workbook: PartialEq` on every generated workbook
     [lex_rc]  the character-level lexer           real lexer tokens of every stored text -> model parser = real parser
     [view], [parse_names], [valid_*]              what from_workbook reads of the workbook
     [cf_eval] evaluate_conditional_formatting      rewrites computed values only; identity without conditional formats (cf_law)
   Findings inherited: the three associative bare pairs 1+(2+3), 1+(2-3), 1&(2&3) (the reloaded tree
   is the left-nested one: [no_bad]; floating-point addition is not associative, so a VALUE can
   change in the last bit: harness class assoc_sum_value), F62 ([lower_stable]), the F04 family
   ([glue_free]), F03 ([C26_literal_refuted]). *)
From IronCalc Require Import Base.Prelude Codec.RefA1 Syntax.Token Syntax.Ast Syntax.Printer Syntax.Parser Syntax.Shape.
From IronCalc Require Import Sheet.Persist Sheet.PersistProofs Sheet.PersistValues.
From IronCalc Require Eval.NumOps Eval.Value Eval.Store Eval.StoreProofs Eval.Eval Eval.EvalProofs.

Definition codec_law {W B : Type} (enc : W -> B) (dec : B -> option W) : Prop := forall w, dec (enc w) = Some w.
(* evaluate_conditional_formatting (last step of from_workbook) rewrites computed values only, and
   does nothing on a workbook without conditional formats *)
Definition cf_law {W : Type} (view : W -> wb_view) (cf_eval : W -> W) : Prop :=
  (forall w, view (cf_eval w) = view w) /\ (forall w, v_has_cf (view w) = false -> cf_eval w = w).

(* load (save m) succeeds exactly when the stored locale and timezone and the requested language
   are valid identifiers (always the case for a workbook the API produced: set_locale /
   set_timezone validate before they store), never panics, and the workbook of the loaded model is
   the stored one: IDENTICAL when there is no conditional format, otherwise identical in everything
   [view] shows (formulas, names, sheets, settings) — computed values may have been rewritten by
   evaluate_conditional_formatting *)
Theorem C26_workbook :
  forall (W B : Type) (enc : W -> B) (dec : B -> option W), codec_law enc dec ->
  forall (PN : Type) (view : W -> wb_view) (parse_names : wb_view -> PN) (cf_eval : W -> W), cf_law view cf_eval ->
  forall (valid_locale valid_tz valid_lang : text -> bool)
         (lex_rc : text -> list token) (nm : names) (m : model W PN) (lang : text),
  let load := from_bytes W B dec PN view parse_names cf_eval valid_locale valid_tz valid_lang lex_rc nm in
  let save := to_bytes W B enc PN in
  load (save m) lang <> Panic /\
  ((exists m', load (save m) lang = Ok m') <->
     valid_locale (v_locale (view (m_wb m))) = true /\ valid_tz (v_tz (view (m_wb m))) = true /\ valid_lang lang = true) /\
  (forall m', load (save m) lang = Ok m' ->
     m_wb m' = cf_eval (m_wb m) /\ view (m_wb m') = view (m_wb m) /\
     (v_has_cf (view (m_wb m)) = false -> m_wb m' = m_wb m) /\ m_lang m' = lang /\
     m_parsed m' = parse_formulas lex_rc nm (view (m_wb m)) /\ m_names m' = parse_names (view (m_wb m))).
Proof.
  exact (fun W B enc dec H PN view pn cf Hcf vl vt vg lex nm m lang =>
    conj (load_never_panics W B enc dec PN view pn cf vl vt vg lex nm H m lang)
   (conj (load_ok_iff W B enc dec PN view pn cf vl vt vg lex nm H m lang)
         (load_save_workbook W B enc dec PN view pn cf vl vt vg lex nm H (proj1 Hcf) (proj2 Hcf) m lang))).
Qed.
Print Assumptions C26_workbook.

(* every stored formula text that is the stored-form print of a parser-image tree without bad pair
   re-parses to that tree: the C09 theorem instantiated at the stored form (no hypothesis about
   printing and parsing is made here) *)
Theorem C26_formulas :
  forall (lex_rc : text -> list token) (nm : names) (v : wb_view) (sheet t : text) (e : ast),
  image m_rc1 nm (env_of v sheet) e = true -> no_bad false e = true -> lower_stable nm e = true ->
  glue_free true (print m_rc1 nm e) = true ->
  lex_rc t = glue true (print m_rc1 nm e) ->
  parse_stored lex_rc nm v sheet t = e.
Proof.
  exact (fun lex nm v sheet t e H1 H2 H3 H4 H5 =>
    stored_formula_reparses lex nm v sheet t e (conj H1 (conj H2 (conj H3 (conj H4 H5))))).
Qed.
Print Assumptions C26_formulas.

(* ... for the whole model: if every formula kept in memory is such a tree and the stored text is
   its print ([consistent], the invariant set_user_input establishes), the loaded model has the
   same parsed formulas *)
Theorem C26_parsed_formulas :
  forall (W B : Type) (enc : W -> B) (dec : B -> option W), codec_law enc dec ->
  forall (PN : Type) (view : W -> wb_view) (parse_names : wb_view -> PN) (cf_eval : W -> W), cf_law view cf_eval ->
  forall (valid_locale valid_tz valid_lang : text -> bool)
         (lex_rc : text -> list token) (nm : names) (m m' : model W PN) (lang : text),
  consistent W PN view lex_rc nm m ->
  from_bytes W B dec PN view parse_names cf_eval valid_locale valid_tz valid_lang lex_rc nm (to_bytes W B enc PN m) lang = Ok m' ->
  view (m_wb m') = view (m_wb m) /\ m_parsed m' = m_parsed m.
Proof.
  exact (fun W B enc dec H PN view pn cf Hcf vl vt vg lex nm m m' lang Hc Hl =>
    conj (proj1 (proj2 (load_save_workbook W B enc dec PN view pn cf vl vt vg lex nm H (proj1 Hcf) (proj2 Hcf) m lang m' Hl)))
         (load_save_formulas W B enc dec PN view pn cf vl vt vg lex nm H (proj1 Hcf) (proj2 Hcf) m lang m' Hc Hl)).
Qed.
Print Assumptions C26_parsed_formulas.

(* a loaded model is a fixed point in everything stored and parsed: saving and loading it again
   changes neither the view of the workbook nor the parsed formulas and names (no consistency
   premise: the second time nothing can change), and gives the very same model when
   evaluate_conditional_formatting has nothing left to rewrite *)
Theorem C26_second_load_identical :
  forall (W B : Type) (enc : W -> B) (dec : B -> option W), codec_law enc dec ->
  forall (PN : Type) (view : W -> wb_view) (parse_names : wb_view -> PN) (cf_eval : W -> W), cf_law view cf_eval ->
  forall (valid_locale valid_tz valid_lang : text -> bool)
         (lex_rc : text -> list token) (nm : names) (m m' m'' : model W PN) (lang : text),
  let load := from_bytes W B dec PN view parse_names cf_eval valid_locale valid_tz valid_lang lex_rc nm in
  let save := to_bytes W B enc PN in
  load (save m) lang = Ok m' -> load (save m') lang = Ok m'' ->
  view (m_wb m'') = view (m_wb m') /\ m_parsed m'' = m_parsed m' /\ m_names m'' = m_names m' /\ m_lang m'' = m_lang m' /\
  (cf_eval (m_wb m') = m_wb m' -> m'' = m').
Proof.
  exact (fun W B enc dec H PN view pn cf Hcf vl vt vg lex nm m m' m'' lang =>
    load_save_idempotent W B enc dec PN view pn cf vl vt vg lex nm H (proj1 Hcf) (proj2 Hcf) m lang m' m'').
Qed.
Print Assumptions C26_second_load_identical.

(* values: the evaluator's inputs are a function [inputs_of] of the workbook and the parsed
   formulas, and evaluate_conditional_formatting does not change inputs (the assumptions, made
   explicit; [inputs_of] is the dump the evaluator tie of C05-C08 works on); then by C07
   (values_depend_on_inputs_only) the live model and the loaded model compute the same value in
   every cell, for any two evaluation orders and whatever stale values either carries — on C07's
   scope: plain cells, acyclic, storable results *)
Theorem C26_values :
  forall (W B : Type) (enc : W -> B) (dec : B -> option W), codec_law enc dec ->
  forall (PN : Type) (view : W -> wb_view) (parse_names : wb_view -> PN) (cf_eval : W -> W), cf_law view cf_eval ->
  forall (valid_locale valid_tz valid_lang : text -> bool) (lex_rc : text -> list token) (nm : names)
         (num : Type) (N : NumOps.NumOps num) (inputs_of : W -> list (list ast) -> Value.cref -> Store.content (num:=num)),
  (forall w p, StoreProofs.same_inputs (inputs_of (cf_eval w) p) (inputs_of w p)) ->
  forall (m m' : model W PN) (lang : text),
  consistent W PN view lex_rc nm m ->
  from_bytes W B dec PN view parse_names cf_eval valid_locale valid_tz valid_lang lex_rc nm (to_bytes W B enc PN m) lang = Ok m' ->
  let cont0 := inputs_of (m_wb m) (m_parsed m) in
  let cont0' := inputs_of (m_wb m') (m_parsed m') in
  (forall c, StoreProofs.plain_content (cont0 c)) ->
  forall rank : Value.cref -> nat,
  (forall c f v d, cont0 c = Store.CFormula f v -> In d (EvalProofs.refs f) -> (rank d < rank c)%nat) ->
  (forall c f v, cont0 c = Store.CFormula f v ->
     StoreProofs.stable_result N (Eval.result_of N (StoreProofs.dn N cont0 rank) c f)) ->
  forall k, (forall c, (rank c < k)%nat) ->
  forall o1 o2 st1 st2,
  StoreProofs.same_inputs cont0 (Store.cont st1) -> Store.oof st1 = false ->
  StoreProofs.same_inputs cont0' (Store.cont st2) -> Store.oof st2 = false ->
  forall c, In c o1 -> In c o2 ->
  Store.value_at (Store.evaluate_in N k o1 st1) c = Store.value_at (Store.evaluate_in N k o2 st2) c.
Proof.
  exact (fun W B enc dec H PN view pn cf Hcf vl vt vg lex nm num N inputs_of Hin m m' lang =>
    load_save_values W B enc dec PN view pn cf vl vt vg lex nm H (proj1 Hcf) (proj2 Hcf) num N inputs_of Hin m m' lang).
Qed.
Print Assumptions C26_values.

(* F03: the stored form keeps 15 significant digits of a number literal.  On integer literals
   below 2^53 (exact in f64) the stored literal is [store_int]: *)
Theorem C26_literal_refuted :
  exists n, 0 <= n < 2 ^ 53 /\ store_int n <> n.
Proof.
  exact (ex_intro _ 1000000000000001
    (conj (proj1 store_int_lossy)
          (fun H => Z.neq_succ_diag_l _ (eq_sym (eq_trans (eq_sym (proj2 store_int_lossy)) H))))).
Qed.
Print Assumptions C26_literal_refuted.

(* up to 15 digits nothing is lost, and what was stored once is stable *)
Theorem C26_literal_partial : forall n, n < 10 ^ 15 -> store_int n = n.
Proof. exact store_int_short. Qed.
Print Assumptions C26_literal_partial.

Theorem C26_literal_stable : forall n, store_int (store_int n) = store_int n.
Proof. exact store_int_idempotent. Qed.
Print Assumptions C26_literal_stable.

(* non-vacuity: a workbook with the formulas "1+2" and "-R[0]C[0]%" satisfies [consistent] and loads to itself *)
Example C26_nonvacuous :
  consistent wb_view unit (fun w => w) Example.lex0 Example.nm0 Example.m0 /\
  from_bytes wb_view wb_view Some unit (fun w => w) (fun _ => tt) (fun w => w) Example.yes Example.yes Example.yes Example.lex0 Example.nm0
    (to_bytes wb_view wb_view (fun w => w) unit Example.m0) [101; 110] = Ok Example.m0.
Proof. exact (conj Example.m0_consistent Example.m0_loads). Qed.
