(* Props/C20.v — Number formats display correctly rounded values: the placement half.
   Statements only; every proof is [exact <lemma>] into Num/FormatPlaceProofs.v.

   [place] is the token walk of format_number (format.rs:474-654) transcribed with a [Panic]
   outcome for every vector index; its inputs are the parsed format section (produced, in the
   correspondence, by /repo's own format parser) and the digit vectors the float stage computed
   (produced, in the correspondence, by the same Rust float primitives).  The float stage
   (scaling, to_precision, log10, {:.p}) is not modelled: rounding is covered by the oracle. *)
From IronCalc Require Import Base.Prelude Num.FormatPlace Num.FormatPlaceProofs Num.FormatParse Num.FormatParseProofs Num.FormatNum Num.FormatNumProofs.

(* C11 for this code path: on every section the parser can produce (well-formedness is checked
   on every generated format) and for ALL digit vectors, no index of the walk is out of bounds *)
Theorem C20_no_panic :
  forall p loc d, wf_part p = true -> place p loc d <> Panic.
Proof. exact place_no_panic. Qed.
Print Assumptions C20_no_panic.

Theorem C20_place_total :
  forall p loc d, wf_part p = true -> exists t, place p loc d = Ok t.
Proof. exact place_total. Qed.
Print Assumptions C20_place_total.

(* the placement rules of the statement ([spec_place]: sign first, currency, then per token: literal
   text verbatim; integer digits right-aligned on the placeholders, surplus digits at the first
   placeholder, 0 pads with zeros, ? with blanks, # with nothing, a group separator after every
   digit that has 3, 6, 9, ... digits to its right; decimal separator with the first decimal
   placeholder, decimals padded by kind; E+/E-/E and the exponent right-aligned on its placeholders)
   are what the code prints — for all token lists and digit vectors, unbounded — EXCEPT in three
   situations (each refuted below): grouping with fewer digits than placeholders, more exponent
   digits than (two or more) placeholders, a leading '?' decimal placeholder with nothing to show. *)
Theorem C20_place_partial :
  forall p loc d,
  wf_part p = true -> group_ok p loc d = true -> exp_ok p d = true -> qperiod_ok p d = true ->
  place p loc d = Ok (spec_place p loc d).
Proof. exact place_is_spec. Qed.
Print Assumptions C20_place_partial.

(* non-vacuity: -1234567.5 in [$$]"x"#,##0.0# satisfies all four premises and prints -$x1,234,567.5 *)
Example C20_place_example :
  wf_part ok_part = true /\ group_ok ok_part en ok_digits = true /\ exp_ok ok_part ok_digits = true /\
  qperiod_ok ok_part ok_digits = true /\
  place ok_part en ok_digits = Ok [45; 36; 120; 49; 44; 50; 51; 52; 44; 53; 54; 55; 46; 53].
Proof. exact ok_example. Qed.

(* every integer digit appears exactly once and in order (padding and separators erased) *)
Theorem C20_int_digits_in_order :
  forall p d, wf_part p = true -> 0 < p_digit_count p ->
  flat_map (int_digits_of p d) (p_tokens p) = d_int d.
Proof. exact int_digits_preserved. Qed.
Print Assumptions C20_int_digits_in_order.

(* a section without placeholders prints its literal material verbatim *)
Theorem C20_literals_verbatim :
  forall p loc d,
  (forall tok, In tok (p_tokens p) -> match tok with TDigit _ _ _ => False | _ => True end) ->
  spec_place p loc d = (if d_neg d && (0 <? p_digit_count p) then [45] else []) ++ currency_text p
                       ++ flat_map (literal_of d) (p_tokens p).
Proof. exact literals_verbatim. Qed.
Print Assumptions C20_literals_verbatim.

(* the three departures of the code from the placement rules, on the faithful model *)
Theorem C20_group_refuted :       (* 5 in 0,000 prints 0005, not 0,005 *)
  wf_part grp_part = true /\
  place grp_part en grp_digits = Ok [48; 48; 48; 53] /\
  spec_place grp_part en grp_digits = [48; 44; 48; 48; 53].
Proof. exact group_refuted. Qed.
Print Assumptions C20_group_refuted.

Theorem C20_group_refuted2 :      (* 1234 in #,###,##0 prints 1234, not 1,234 *)
  wf_part grp_part2 = true /\
  place grp_part2 en grp_digits2 = Ok [49; 50; 51; 52] /\
  spec_place grp_part2 en grp_digits2 = [49; 44; 50; 51; 52].
Proof. exact group_refuted2. Qed.
Print Assumptions C20_group_refuted2.

Theorem C20_exponent_refuted :    (* 1e100 in 0E+00 prints 1E+10100, not 1E+100 *)
  wf_part exp_part = true /\
  place exp_part en exp_digits_w = Ok [49; 69; 43; 49; 48; 49; 48; 48] /\
  spec_place exp_part en exp_digits_w = [49; 69; 43; 49; 48; 48].
Proof. exact exponent_refuted. Qed.
Print Assumptions C20_exponent_refuted.

Theorem C20_question_refuted :    (* 12 in 0.? prints "12 ", not "12. " *)
  wf_part q_part = true /\
  place q_part en q_digits = Ok [49; 50; 32] /\
  spec_place q_part en q_digits = [49; 50; 46; 32].
Proof. exact question_refuted. Qed.
Print Assumptions C20_question_refuted.

(* ---------- the well-formedness premise discharged: the format parser ----------
   [parse_part] / [parse] model Parser::parse_part / Parser::parse over the token stream of the format
   lexer (tied to /repo on every generated code).  Every Number section they produce, from ANY token
   stream (dates, colours, conditions, illegal characters, any number of sections), is well formed. *)
Theorem C20_parser_wf :
  forall toks n rest, parse_part toks = (PNumber n, rest) -> wf_part (np_part n) = true.
Proof. exact parser_wf. Qed.
Print Assumptions C20_parser_wf.

Theorem C20_parse_sections_wf :
  forall toks n, In (PNumber n) (parse toks) -> wf_part (np_part n) = true.
Proof. exact parse_sections_wf. Qed.
Print Assumptions C20_parse_sections_wf.

(* C11 for number formatting: whatever the format code and whatever the digit vectors, the token
   walk does not index out of bounds *)
Theorem C20_no_panic_any_code :
  forall toks n rest loc d, parse_part toks = (PNumber n, rest) -> place (np_part n) loc d <> Panic.
Proof. exact no_panic_any_code. Qed.
Print Assumptions C20_no_panic_any_code.

(* ---------- the string-level step of the float stage: get_fract_part (format.rs:18-41) ----------
   b is what format!("{:.p}", value.fract()) printed (an input: the float primitive is not modelled). *)
Theorem C20_fract_no_panic :
  forall b int_len, b <> [] -> exists fp, get_fract_part b int_len = Ok fp.
Proof. exact fract_no_panic. Qed.
Print Assumptions C20_fract_no_panic.

(* on "d.ddd…" it returns the decimals with trailing zeros removed, cut to 15 - int_len digits
   (one digit when the integer part has more than 15 digits) — whatever d is, so a fraction that
   printed as "1.00" yields no decimals at all: the lost carry of finding F14d *)
Theorem C20_fract_spec :
  forall c0 ds int_len, get_fract_part (c0 :: 46 :: ds) int_len = Ok (spec_fract ds int_len).
Proof. exact fract_spec. Qed.
Print Assumptions C20_fract_spec.

(* from the printed strings to the text: no index out of bounds on any well-formed section *)
Theorem C20_format_text_no_panic :
  forall p loc neg s_int z b ep eneg raw,
  wf_part p = true -> b <> [] -> exists t, format_text p loc neg s_int z b ep eneg raw = Ok t.
Proof. exact format_text_no_panic. Qed.
Print Assumptions C20_format_text_no_panic.
