(* Props/C01.v — Undo restores the exact state before the undone operation.
   The machine-level theorems hold for EVERY type of states and diffs; the per-operation
   content is the hypothesis [faithful] (an operation's recorded diff list, applied backwards
   to the state after it, gives the state before it), which the correspondence checks on the
   implementation for every generated operation. *)
From Coq Require Import List.
Import ListNotations.
From IronCalc Require Import UserModel.History UserModel.HistoryProofs.

(* undoing the operation just performed gives back exactly the state it started from *)
Theorem C01_undo_restores :
  forall (St Df : Type) (apply unapply : Df -> St -> St) (m : machine St Df) (sp : spec St) s' dl,
  R St Df apply unapply m sp -> faithful St Df apply unapply (st St Df m) dl s' ->
  st St Df (step St Df apply unapply (step St Df apply unapply m (Do s' dl)) Undo) = st St Df m.
Proof. exact undo_restores. Qed.
Print Assumptions C01_undo_restores.

(* repeated undo walks back through the whole history: after any valid interleaving the
   workbook is the state under the cursor of the list of visited states *)
Theorem C01_walk_back :
  forall (St Df : Type) (apply unapply : Df -> St -> St) s0 es,
  valid St Df apply unapply (init St Df s0) es ->
  let m := run St Df apply unapply (init St Df s0) es in
  let sp := spec_run St Df (spec_init St s0) es in
  st St Df m = nth (cursor St sp) (log St sp) s0 /\
  (can_undo St Df m = true <-> 0 < cursor St sp) /\
  (can_redo St Df m = true <-> cursor St sp + 1 < length (log St sp)).
Proof. exact cursor_semantics. Qed.
Print Assumptions C01_walk_back.

(* "Repeated undo walks back through the whole history the same way": after ANY valid history
   (with undos and redos inside), k further undos leave the workbook in the state k places
   before the cursor of the log, and undoing [cursor] times restores the initial workbook. *)
From IronCalc Require Import UserModel.WalkBack.

Theorem C01_walk_back_k :
  forall (St Df : Type) (apply unapply : Df -> St -> St) s0 es k,
  valid St Df apply unapply (init St Df s0) es ->
  let sp := spec_run St Df (spec_init St s0) es in
  st St Df (run St Df apply unapply (run St Df apply unapply (init St Df s0) es) (repeat Undo k))
  = nth (cursor St sp - k) (log St sp) s0.
Proof. exact walk_back_k. Qed.
Print Assumptions C01_walk_back_k.

Theorem C01_walk_back_to_the_start :
  forall (St Df : Type) (apply unapply : Df -> St -> St) s0 es,
  valid St Df apply unapply (init St Df s0) es ->
  let sp := spec_run St Df (spec_init St s0) es in
  st St Df (run St Df apply unapply (run St Df apply unapply (init St Df s0) es) (repeat Undo (cursor St sp))) = s0.
Proof. exact walk_back_all. Qed.
Print Assumptions C01_walk_back_to_the_start.
