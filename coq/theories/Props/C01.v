(* Props/C01.v — Undo restores the exact state before the undone operation.
   The machine-level theorems hold for EVERY type of states and diffs; the per-operation
   content is the hypothesis [faithful] (an operation's recorded diff list, applied backwards
   to the state after it, gives the state before it), which the correspondence checks on the
   implementation for every generated operation. *)
From Coq Require Import List.
Import ListNotations.
From IronCalc Require Import UserModel.History UserModel.HistoryProofs.

(* undoing the operation just performed gives back exactly the state it started from *)
Theorem C01_undo_restores :
  forall (St Df : Type) (apply unapply : Df -> St -> St) (m : machine St Df) (sp : spec St) s' dl,
  R St Df apply unapply m sp -> faithful St Df apply unapply (st St Df m) dl s' ->
  st St Df (step St Df apply unapply (step St Df apply unapply m (Do s' dl)) Undo) = st St Df m.
Proof. exact undo_restores. Qed.
Print Assumptions C01_undo_restores.

(* repeated undo walks back through the whole history: after any valid interleaving the
   workbook is the state under the cursor of the list of visited states *)
Theorem C01_walk_back :
  forall (St Df : Type) (apply unapply : Df -> St -> St) s0 es,
  valid St Df apply unapply (init St Df s0) es ->
  let m := run St Df apply unapply (init St Df s0) es in
  let sp := spec_run St Df (spec_init St s0) es in
  st St Df m = nth (cursor St sp) (log St sp) s0 /\
  (can_undo St Df m = true <-> 0 < cursor St sp) /\
  (can_redo St Df m = true <-> cursor St sp + 1 < length (log St sp)).
Proof. exact cursor_semantics. Qed.
Print Assumptions C01_walk_back.
