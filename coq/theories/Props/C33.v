(* Props/C33.v — Cell-attached metadata follows its cells.
   Statements only; every proof is [exact <lemma>] into Syntax/MetadataProofs.v.
   Scope: the link key maps of every call site of displace_links, the loops of the block moves,
   displace_links on the store, the corner arithmetic of conditional-format ranges and the
   range text against the text stringify prints for a formula reference to the same range
   (Syntax/Metadata.v, faithful to actions.rs). Rule formulas go through to_string_displaced,
   i.e. Displace.displace_text (theorems of C12-C15). Clearing, undo and cut/paste are decided
   on the implementation by the oracle (see notes/C33.md). *)
From IronCalc Require Import Base.Prelude Base.Dec Codec.Column Codec.RefA1
  Syntax.Displace Syntax.DisplaceProofs Syntax.Metadata Syntax.MetadataProofs.

(* links, insertion: the closure of insert_rows / insert_columns is the cell relocation *)
Theorem C33_links_insert :
  forall s at_ k p, 0 < k ->
  link_insert_rows at_ k p = cell_map (DRow s at_ k) p /\
  link_insert_columns at_ k p = cell_map (DCol s at_ k) p.
Proof. exact (fun s at_ k p H => conj (link_insert_rows_is_cell_map s at_ k p H) (link_insert_columns_is_cell_map s at_ k p H)). Qed.
Print Assumptions C33_links_insert.

(* links, deletion: None exactly for the links of the deleted lines *)
Theorem C33_links_delete :
  forall s at_ k p, 0 <= k ->
  link_delete_rows at_ k p = cell_map (DRow s at_ (- k)) p /\
  link_delete_columns at_ k p = cell_map (DCol s at_ (- k)) p.
Proof. exact (fun s at_ k p H => conj (link_delete_rows_is_cell_map s at_ k p H) (link_delete_columns_is_cell_map s at_ k p H)). Qed.
Print Assumptions C33_links_delete.

(* links, single-line moves: closure + moved_links + retain + re-insertion, every delta *)
Theorem C33_links_move :
  forall s i delta p,
  link_move_row i delta p = cell_map (DRowMove s i delta) p /\
  link_move_column i delta p = cell_map (DColMove s i delta) p.
Proof. exact (fun s i delta p => conj (link_move_row_is_cell_map s i delta p) (link_move_column_is_cell_map s i delta p)). Qed.
Print Assumptions C33_links_move.

(* every call site at once *)
Theorem C33_links_all : forall d p, link_map d p = cell_map d p.
Proof. exact link_map_is_cell_map. Qed.
Print Assumptions C33_links_all.

(* the key maps are injective where defined: collecting into a HashMap loses no link *)
Theorem C33_links_no_collision :
  forall d p1 p2 q, link_map d p1 = Some q -> link_map d p2 = Some q -> p1 = p2.
Proof. exact link_map_injective. Qed.
Print Assumptions C33_links_no_collision.

(* the store: after displace_links a link is at k' iff it was at a k that cell_map sends to k' *)
Theorem C33_links_store :
  forall d l k' v,
  In (k', v) (displace_links (link_map d) l) <-> exists k, In (k, v) l /\ cell_map d k = Some k'.
Proof. exact displace_links_follow_cells. Qed.
Print Assumptions C33_links_store.

(* the closure of a move never leaves a link on the target line (delta <> 0), so the retain
   step of move_row_unchecked / move_column_unchecked removes only auto-created links *)
Theorem C33_links_move_retain_is_harmless :
  forall i delta p,
  (fst p = i /\ link_move_row_closure i delta p = None) \/
  (fst p <> i /\ exists p', link_move_row_closure i delta p = Some p' /\ (delta <> 0 -> fst p' <> i + delta)).
Proof. exact link_move_row_closure_spec. Qed.
Print Assumptions C33_links_move_retain_is_harmless.

(* block moves: the loops of move_rows_action / move_columns_action *)
Theorem C33_links_block_move :
  forall i n d r c,
  link_block_move true i n d (r, c) = Some (block_move i (Z.of_nat n) d r, c) /\
  link_block_move false i n d (r, c) = Some (r, block_move i (Z.of_nat n) d c).
Proof. exact (fun i n d r c => conj (link_block_move_rows i n d r c) (link_block_move_cols i n d r c)). Qed.
Print Assumptions C33_links_block_move.

(* conditional formats: the corner arithmetic IS the cell relocation (deleted = None) *)
Theorem C33_cf_corners :
  forall d s p, disp_sheet d = Some s -> cf_corner d s p = cell_map d p.
Proof. exact cf_corner_is_cell_map. Qed.
Print Assumptions C33_cf_corners.

Theorem C33_cf_corner_survives :
  forall d s p p', disp_sheet d = Some s -> cf_corner d s p = Some p' -> cell_map d p = Some p'.
Proof. exact cf_corner_survives. Qed.
Print Assumptions C33_cf_corner_survives.

Theorem C33_cf_other_sheet :
  forall d s s' p, disp_sheet d = Some s' -> s <> s' -> cf_corner d s p = Some p.
Proof. exact cf_corner_other_sheet. Qed.
Print Assumptions C33_cf_other_sheet.

(* "C33_cf_vs_formula" at full strength (no side condition) is FALSE: *)
Theorem C33_cf_vs_formula_refuted :
  let d := DRow 0 3 (-2) in
  cf_sqref d 0 t_A3A6 = t_A3A6 /\
  cf_part d 0 t_A3A6 = cf_pair d 0 t_A3A6 (3, 1) (6, 1) /\
  displace_range_text d (1, 2) (rel_range 0 (1, 2) (3, 1) (6, 1)) = t_REF_A4 /\
  cell_map d (3, 1) = None /\ cell_map d (6, 1) = Some (4, 1) /\
  cf_pair d 0 t_A3A6 (3, 1) (6, 1) <> displace_range_text d (1, 2) (rel_range 0 (1, 2) (3, 1) (6, 1)).
Proof. exact cf_vs_formula_refuted_deleted_corner. Qed.
Print Assumptions C33_cf_vs_formula_refuted.

Theorem C33_cf_vs_formula_refuted_off_grid :
  let d := DCol 0 2 1 in
  cf_sqref d 0 t_A1XFD1 = t_A1XFD1 /\
  cf_part d 0 t_A1XFD1 = cf_pair d 0 t_A1XFD1 (1, 1) (1, 16384) /\
  displace_range_text d (2, 1) (rel_range 0 (2, 1) (1, 1) (1, 16384)) = t_A1_REF /\
  cf_corner_deleted d 0 (1, 16384) = false /\
  cf_pair d 0 t_A1XFD1 (1, 1) (1, 16384) <> displace_range_text d (2, 1) (rel_range 0 (2, 1) (1, 1) (1, 16384)).
Proof. exact cf_vs_formula_refuted_corner_off_grid. Qed.
Print Assumptions C33_cf_vs_formula_refuted_off_grid.

(* ... and TRUE outside the class [cf_defect] (a corner deleted, a corner pushed beyond the last
   column, a row below 1): the displaced range is the text a formula in any cell q holding a
   reference to the same range would show *)
Theorem C33_cf_partial :
  forall d s q orig p1 p2,
  disp_sheet d = Some s -> cf_defect d s p1 p2 = false ->
  cf_pair d s orig p1 p2 = displace_range_text d q (rel_range s q p1 p2).
Proof. exact cf_range_is_formula_range. Qed.
Print Assumptions C33_cf_partial.

Theorem C33_cf_partial_single_cell :
  forall d s q orig p,
  disp_sheet d = Some s ->
  cf_corner_deleted d s p = false -> cf_corner_off_grid d s p = false ->
  cf_cell d s orig p =
  displace_text d false false q
    {| a_sheet := s; a_row := fst p - fst q; a_col := snd p - snd q; a_abs_row := false; a_abs_col := false |}.
Proof. exact cf_cell_is_formula_ref. Qed.
Print Assumptions C33_cf_partial_single_cell.

(* inside the class (deleted corner) the stored text is returned as it is *)
Theorem C33_cf_unchanged_when_corner_deleted :
  forall d s orig p1 p2,
  cf_corner_deleted d s p1 = true \/ cf_corner_deleted d s p2 = true ->
  cf_pair d s orig p1 p2 = orig.
Proof. exact cf_range_unchanged_when_corner_deleted. Qed.
Print Assumptions C33_cf_unchanged_when_corner_deleted.

(* the "row below 1" part of the class is unreachable through the validated operations *)
Theorem C33_cf_rows_stay_positive :
  forall d s p r c,
  disp_valid d -> 1 <= fst p -> 1 <= snd p -> cf_corner d s p = Some (r, c) -> 1 <= r /\ 1 <= c.
Proof. exact cf_rows_stay_positive. Qed.
Print Assumptions C33_cf_rows_stay_positive.

(* non-vacuity: two rows inserted inside A3:A6 — not in the class, both texts are A3:A8;
   a link on row 7 under a move of row 3 by +5 *)
Example C33_nonvacuous_cf :
  cf_defect (DRow 0 5 2) 0 (3, 1) (6, 1) = false /\
  cf_sqref (DRow 0 5 2) 0 t_A3A6 = [65; 51; 58; 65; 56] /\
  displace_range_text (DRow 0 5 2) (1, 2) (rel_range 0 (1, 2) (3, 1) (6, 1)) = [65; 51; 58; 65; 56].
Proof. exact cf_range_grows. Qed.

Example C33_nonvacuous_links :
  link_map (DRow 0 3 (-2)) (4, 2) = None /\ link_map (DRow 0 3 (-2)) (6, 2) = Some (4, 2) /\
  link_map (DRowMove 0 3 5) (3, 2) = Some (8, 2) /\ link_map (DRowMove 0 3 5) (7, 2) = Some (6, 2).
Proof. vm_compute. repeat split; reflexivity. Qed.
