(* Props/C02.v — Redo re-applies exactly what undo removed; undo/redo move a cursor over the
   list of operations; a new operation discards everything after the cursor. *)
From Coq Require Import List.
Import ListNotations.
From IronCalc Require Import UserModel.History UserModel.HistoryProofs.

Theorem C02_refinement :
  forall (St Df : Type) (apply unapply : Df -> St -> St) es m sp,
  R St Df apply unapply m sp -> valid St Df apply unapply m es ->
  R St Df apply unapply (run St Df apply unapply m es) (spec_run St Df sp es).
Proof. exact refinement. Qed.
Print Assumptions C02_refinement.

Theorem C02_cursor_semantics :
  forall (St Df : Type) (apply unapply : Df -> St -> St) s0 es,
  valid St Df apply unapply (init St Df s0) es ->
  let m := run St Df apply unapply (init St Df s0) es in
  let sp := spec_run St Df (spec_init St s0) es in
  st St Df m = nth (cursor St sp) (log St sp) s0 /\
  (can_undo St Df m = true <-> 0 < cursor St sp) /\
  (can_redo St Df m = true <-> cursor St sp + 1 < length (log St sp)).
Proof. exact cursor_semantics. Qed.
Print Assumptions C02_cursor_semantics.

Theorem C02_undo_then_redo :
  forall (St Df : Type) (apply unapply : Df -> St -> St) m sp,
  R St Df apply unapply m sp -> can_undo St Df m = true ->
  st St Df (step St Df apply unapply (step St Df apply unapply m Undo) Redo) = st St Df m.
Proof. exact undo_redo_identity. Qed.
Print Assumptions C02_undo_then_redo.

Theorem C02_new_operation_truncates :
  forall (St Df : Type) (sp : spec St) s' (dl : list Df),
  after St (spec_step St Df sp (Do s' dl)) = [] /\
  log St (spec_step St Df sp (Do s' dl)) = rev (before St sp) ++ [cur St sp; s'].
Proof. exact new_operation_truncates. Qed.
Print Assumptions C02_new_operation_truncates.
