(* Props/C02.v — Redo re-applies exactly what undo removed; undo/redo move a cursor over the
   list of operations; a new operation discards everything after the cursor. *)
From Coq Require Import List.
Import ListNotations.
From IronCalc Require Import UserModel.History UserModel.HistoryProofs.

Theorem C02_refinement :
  forall (St Df : Type) (apply unapply : Df -> St -> St) es m sp,
  R St Df apply unapply m sp -> valid St Df apply unapply m es ->
  R St Df apply unapply (run St Df apply unapply m es) (spec_run St Df sp es).
Proof. exact refinement. Qed.
Print Assumptions C02_refinement.

Theorem C02_cursor_semantics :
  forall (St Df : Type) (apply unapply : Df -> St -> St) s0 es,
  valid St Df apply unapply (init St Df s0) es ->
  let m := run St Df apply unapply (init St Df s0) es in
  let sp := spec_run St Df (spec_init St s0) es in
  st St Df m = nth (cursor St sp) (log St sp) s0 /\
  (can_undo St Df m = true <-> 0 < cursor St sp) /\
  (can_redo St Df m = true <-> cursor St sp + 1 < length (log St sp)).
Proof. exact cursor_semantics. Qed.
Print Assumptions C02_cursor_semantics.

Theorem C02_undo_then_redo :
  forall (St Df : Type) (apply unapply : Df -> St -> St) m sp,
  R St Df apply unapply m sp -> can_undo St Df m = true ->
  st St Df (step St Df apply unapply (step St Df apply unapply m Undo) Redo) = st St Df m.
Proof. exact undo_redo_identity. Qed.
Print Assumptions C02_undo_then_redo.

Theorem C02_new_operation_truncates :
  forall (St Df : Type) (sp : spec St) s' (dl : list Df),
  after St (spec_step St Df sp (Do s' dl)) = [] /\
  log St (spec_step St Df sp (Do s' dl)) = rev (before St sp) ++ [cur St sp; s'].
Proof. exact new_operation_truncates. Qed.
Print Assumptions C02_new_operation_truncates.

(* k undos followed by j <= k redos after ANY valid history: the workbook is the state
   k - j places before the original cursor — redo walks forward through exactly the states
   undo walked back through. *)
From IronCalc Require Import UserModel.WalkBack.

Theorem C02_walk_back_then_forward :
  forall (St Df : Type) (apply unapply : Df -> St -> St) s0 es k j,
  valid St Df apply unapply (init St Df s0) es ->
  k <= cursor St (spec_run St Df (spec_init St s0) es) -> j <= k ->
  let sp := spec_run St Df (spec_init St s0) es in
  st St Df (run St Df apply unapply (run St Df apply unapply (init St Df s0) es) (repeat Undo k ++ repeat Redo j))
  = nth (cursor St sp - k + j) (log St sp) s0.
Proof. exact walk_back_then_forward. Qed.
Print Assumptions C02_walk_back_then_forward.

(* non-vacuity on the snapshot-identifier instance: three operations, two undos, one redo *)
From Coq Require Import ZArith.
From IronCalc Require Import UserModel.HistoryId.
Example C02_walk_nonvacuous :
  let es := [Do 1%Z [(0, 1)%Z]; Do 2%Z [(1, 2)%Z]; Do 3%Z [(2, 3)%Z]] in
  valid Z idiff id_apply id_unapply (init Z idiff 0%Z) es /\
  (2 <= cursor Z (spec_run Z idiff (spec_init Z 0%Z) es))%nat /\
  st Z idiff (run Z idiff id_apply id_unapply (run Z idiff id_apply id_unapply (init Z idiff 0%Z) es)
                  (repeat Undo 2 ++ repeat Redo 1)) = 2%Z.
Proof. vm_compute. repeat split; auto. Qed.
