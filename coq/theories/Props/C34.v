(* Props/C34.v — F4 reference cycling has period four and touches only $ markers.
   Statements only; every proof is [exact <lemma>] into Codec/F4Proofs.v.
   Model: Codec/F4.v mirrors lexer/util.rs (next_state, cycle_endpoint, cycle_token_text,
   cycle_reference); the lexer is an input (token boundaries), [ws] is char::is_whitespace. *)
From IronCalc Require Import Base.Prelude Codec.F4 Codec.F4Proofs.

(* ---- endpoints: [$]letters[$]digits, [$]letters, [$]digits — of any length ---------------- *)

(* four presses return the endpoint, upper-cased *)
Theorem C34_endpoint_period :
  forall p, endpoint_shape p -> iter 4 cycle_endpoint p = upper p.
Proof. exact endpoint_period4. Qed.
Print Assumptions C34_endpoint_period.

(* a full cell reference has period exactly four ... *)
Theorem C34_endpoint_cell_period_exact :
  forall a col b row, col <> [] -> row <> [] -> all_alpha col -> all_digit row ->
  let p := mk_endpoint a col b row in
  iter 1 cycle_endpoint p <> upper p /\ iter 2 cycle_endpoint p <> upper p /\
  iter 3 cycle_endpoint p <> upper p /\ iter 4 cycle_endpoint p = upper p.
Proof. exact endpoint_cell_period_exact. Qed.
Print Assumptions C34_endpoint_cell_period_exact.

(* ... column-only and row-only endpoints period two *)
Theorem C34_endpoint_col_period2 :
  forall a col, col <> [] -> all_alpha col ->
  iter 2 cycle_endpoint (dollar_if a ++ col) = upper (dollar_if a ++ col).
Proof. exact endpoint_period2_col. Qed.
Print Assumptions C34_endpoint_col_period2.

Theorem C34_endpoint_row_period2 :
  forall a row, row <> [] -> all_digit row ->
  iter 2 cycle_endpoint (dollar_if a ++ row) = upper (dollar_if a ++ row).
Proof. exact endpoint_period2_row. Qed.
Print Assumptions C34_endpoint_row_period2.

(* only '$' markers and letter case change: for the grammar's endpoints ... *)
Theorem C34_endpoint_only_dollars :
  forall p, endpoint_shape p -> strip_dollar (cycle_endpoint p) = upper (strip_dollar p).
Proof. exact endpoint_only_dollars. Qed.
Print Assumptions C34_endpoint_only_dollars.

(* ... and, up to case, for every text whatsoever *)
Theorem C34_endpoint_only_dollars_any :
  forall p, upper (strip_dollar (cycle_endpoint p)) = upper (strip_dollar p).
Proof. exact endpoint_only_dollars_any. Qed.
Print Assumptions C34_endpoint_only_dollars_any.

Example C34_endpoint_nonvacuous :
  endpoint_shape [97; 98; 36; 49; 50] /\ cycle_endpoint [97; 98; 36; 49; 50] = [36; 65; 66; 49; 50].
Proof.
  split; [|reflexivity].
  exact (ES_cell false [97; 98] true [49; 50] ltac:(discriminate) ltac:(discriminate) eq_refl eq_refl).
Qed.

(* ---- reference part of a token: endpoint, or endpoint ':' endpoint ------------------------ *)

(* both endpoints of a range are cycled *)
Theorem C34_range_both_endpoints :
  forall p q, no_char COLON p -> no_char COLON q ->
  cycle_parts (p ++ COLON :: q) = cycle_endpoint p ++ COLON :: cycle_endpoint q.
Proof. exact parts_range. Qed.
Print Assumptions C34_range_both_endpoints.

Theorem C34_parts_period :
  forall r, ref_shape r -> iter 4 cycle_parts r = upper r.
Proof. exact parts_period4. Qed.
Print Assumptions C34_parts_period.

Theorem C34_parts_only_dollars :
  forall r, ref_shape r -> strip_dollar (cycle_parts r) = upper (strip_dollar r).
Proof. exact parts_only_dollars. Qed.
Print Assumptions C34_parts_only_dollars.

(* ---- whole tokens: blanks, sheet prefix (none / name! / 'quo''ted'!), reference ------------ *)

(* the blanks and the sheet prefix are copied verbatim, the reference part is cycled *)
Theorem C34_token :
  forall (ws : Z -> bool), (forall c, ep_char c = true -> ws c = false) ->
  forall blanks pre r,
  forallb ws blanks = true -> prefix_shape pre -> hd_sat ws pre = false -> ref_shape r ->
  cycle_token_text ws (blanks ++ pre ++ r) = blanks ++ pre ++ cycle_parts r.
Proof. exact token_cycle. Qed.
Print Assumptions C34_token.

Theorem C34_token_period :
  forall (ws : Z -> bool), (forall c, ep_char c = true -> ws c = false) ->
  forall blanks pre r,
  forallb ws blanks = true -> prefix_shape pre -> hd_sat ws pre = false -> ref_shape r ->
  iter 4 (cycle_token_text ws) (blanks ++ pre ++ r) = blanks ++ pre ++ upper r.
Proof. exact token_period4. Qed.
Print Assumptions C34_token_period.

(* for EVERY token text (of the grammar or not) only '$' markers and case change *)
Theorem C34_token_only_dollars_any :
  forall (ws : Z -> bool) t,
  upper (strip_dollar (cycle_token_text ws t)) = upper (strip_dollar t).
Proof. exact token_only_dollars_any. Qed.
Print Assumptions C34_token_only_dollars_any.

(* the executable whitespace class satisfies the hypothesis of C34_token *)
Theorem C34_ws_executable :
  forall c, ep_char c = true -> f4_ws c = false.
Proof. exact f4_ws_ep. Qed.
Print Assumptions C34_ws_executable.

(* ' a''b'!$c$3:d4  ->   ' a''b'!C$3:$D$4   (blank, quoted prefix with a doubled quote) *)
Example C34_token_nonvacuous :
  cycle_token_text f4_ws [32; 39; 97; 39; 39; 98; 39; 33; 36; 99; 36; 51; 58; 100; 52]
  = [32; 39; 97; 39; 39; 98; 39; 33; 67; 36; 51; 58; 36; 68; 36; 52].
Proof. reflexivity. Qed.

(* ---- the driver cycle_reference (token boundaries are an input) --------------------------- *)

(* For ordered token boundaries inside the body: no slice is out of range (the result is
   never Panic); the new text is '=' followed by [spec_tail] — gaps and untouched tokens are
   copied verbatim, each touched token is replaced by cycle_token_text of its text; either
   nothing is touched and text and cursor come back unchanged, or the returned end position
   sits exactly at the end of the last cycled token (what follows it is what followed that
   token before) and a collapsed cursor stays collapsed. *)
Theorem C34_untouched_and_cursor :
  forall (ws : Z -> bool) body start end_ toks ss se,
  0 <= start <= 1 + lenZ body -> 0 <= end_ <= 1 + lenZ body ->
  monotone 0 (lenZ body) toks ->
  (ss, se) = (if start <=? end_ then (start, end_) else (end_, start)) ->
  exists t s e,
    cycle_reference ws (EQUALS :: body) start end_ toks = Ok (t, s, e) /\
    t = EQUALS :: spec_tail ws body ss se 0 toks /\
    ((untouched_all ss se toks /\ t = EQUALS :: body /\ s = start /\ e = end_) \/
     (skipn (Z.to_nat e) t = skipn (Z.to_nat (last_end ss se 0 toks)) body /\
      (start = end_ -> s = e))).
Proof. exact cycle_reference_spec. Qed.
Print Assumptions C34_untouched_and_cursor.

(* spec_tail, unfolded once: the text up to the first touched token is the original's *)
Theorem C34_spec_first :
  forall (ws : Z -> bool) body ss se k m r,
  touched ss se m = true ->
  spec_tail ws body ss se k (m :: r) =
  seg body k (t_start m) ++ cycle_token_text ws (seg body (t_start m) (t_end m))
  ++ spec_tail ws body ss se (t_end m) r.
Proof. exact spec_tail_first. Qed.
Print Assumptions C34_spec_first.

Theorem C34_spec_untouched :
  forall (ws : Z -> bool) body ss se k toks,
  untouched_all ss se toks -> spec_tail ws body ss se k toks = skipn (Z.to_nat k) body.
Proof. exact spec_tail_untouched. Qed.
Print Assumptions C34_spec_untouched.

(* =SUM(a1:b2)+C3 with the selection [5,14]: both references are rewritten, "SUM(" ")+" kept *)
Example C34_driver_nonvacuous :
  cycle_reference f4_ws [61; 83; 85; 77; 40; 97; 49; 58; 98; 50; 41; 43; 67; 51] 5 14
    [ {| t_ref := false; t_start := 0; t_end := 3 |}; {| t_ref := false; t_start := 3; t_end := 4 |};
      {| t_ref := true; t_start := 4; t_end := 9 |}; {| t_ref := false; t_start := 9; t_end := 10 |};
      {| t_ref := false; t_start := 10; t_end := 11 |}; {| t_ref := true; t_start := 11; t_end := 13 |} ]
  = Ok ([61; 83; 85; 77; 40; 36; 65; 36; 49; 58; 36; 66; 36; 50; 41; 43; 36; 67; 36; 51], 5, 20).
Proof. vm_compute. reflexivity. Qed.

(* ---- the formula: four presses --------------------------------------------------------------
   PARTIAL. The lexer is not modelled, so "the cycled text lexes to the cycled token again,
   at the same place" is an explicit premise: it is the token list [one_ref pre tok_i] handed
   to each of the four calls. Under it four presses with a collapsed cursor anywhere on the
   token restore the formula with the reference part upper-cased and put the cursor at the
   end of the reference. Missing for the full statement: a model of the lexer proving the
   premise for well-formed formulas; the oracle checks it on the implementation instead. *)
Theorem C34_formula_period_partial :
  forall (ws : Z -> bool), (forall c, ep_char c = true -> ws c = false) ->
  forall pre post blanks pfx r c0,
  forallb ws blanks = true -> prefix_shape pfx -> hd_sat ws pfx = false -> ref_shape r ->
  let tok := fun i => iter i (cycle_token_text ws) (blanks ++ pfx ++ r) in
  1 + lenZ pre <= c0 <= token_end pre (tok 0%nat) ->
  let c := fun i => token_end pre (tok i) in
  press ws pre post (tok 0%nat) c0 = Ok (EQUALS :: pre ++ tok 1%nat ++ post, c 1%nat, c 1%nat) /\
  press ws pre post (tok 1%nat) (c 1%nat) = Ok (EQUALS :: pre ++ tok 2%nat ++ post, c 2%nat, c 2%nat) /\
  press ws pre post (tok 2%nat) (c 2%nat) = Ok (EQUALS :: pre ++ tok 3%nat ++ post, c 3%nat, c 3%nat) /\
  press ws pre post (tok 3%nat) (c 3%nat) =
    Ok (EQUALS :: pre ++ (blanks ++ pfx ++ upper r) ++ post,
        token_end pre (blanks ++ pfx ++ upper r), token_end pre (blanks ++ pfx ++ upper r)).
Proof. exact formula_period_partial. Qed.
Print Assumptions C34_formula_period_partial.

(* REFUTED without that premise (finding F04): =A1:OFFSET(B1,1,1), cursor on A1, with the
   token lists the implementation's lexer reports before and after the first press (replayed
   by the harness on every run). After one press the text is =$A$1:OFFSET(B1,1,1), which has
   no reference token any more; every further press returns it unchanged. *)
Theorem C34_refuted_range_operator :
  exists formula toks0 toks1 c stuck,
    cycle_reference f4_ws formula c c toks0 = Ok (stuck, 5, 5) /\
    cycle_reference f4_ws stuck 5 5 toks1 = Ok (stuck, 5, 5) /\
    upper stuck <> upper formula.
Proof. exact period_refuted_range_operator. Qed.
Print Assumptions C34_refuted_range_operator.
