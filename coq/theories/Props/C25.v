(* Props/C25.v — xlsx import never crashes (navigation skeleton of xlsx/src/import).
   Statements only; every proof is [exact <lemma>] into Xlsx/SkeletonProofs.v and Xlsx/Refutations.v.

   [load_skel p] is the outcome class (Ok / Err / Panic) of `load_from_xlsx_bytes` followed by
   `Model::from_workbook` on the package p, following the importer's lookups, `?`s, `[0]`s, HashMap
   indexings, `unwrap`s and slices over abstract XML trees.  The full statement is REFUTED for the
   code as it stands; what holds is the guarded form [C25_partial]. *)
From IronCalc Require Import Base.Prelude Xlsx.Skeleton Xlsx.SkeletonProofs Xlsx.Refutations
  Generated.Witness_c25 Xlsx.EscapeSafe Xlsx.EscapeSafeProofs.

(* the property at full strength (for the skeleton): no package makes the importer panic *)
Definition C25_statement : Prop := forall p : pkg, load_skel p <> Panic.

(* F19a REPAIRED (2db1935: `.find(sheetData).ok_or_else(..)?`): a worksheet part without
   <sheetData> is an import error; the former witness satisfies the guard and returns Err *)
Theorem C25_fixed_no_sheetdata : guard w_no_sheetdata = true /\ load_skel w_no_sheetdata = Err.
Proof. exact fixed_no_sheetdata. Qed.
Print Assumptions C25_fixed_no_sheetdata.

(* F19b: a comments Target shorter than two bytes  (worksheets.rs `target.replace_range(..2, v[0])`) *)
Theorem C25_refuted_short_target : ~ C25_statement.
Proof. exact refuted_short_target_empty. Qed.
Print Assumptions C25_refuted_short_target.

Theorem C25_refuted_short_target_one_byte : ~ C25_statement.
Proof. exact refuted_short_target_one. Qed.
Print Assumptions C25_refuted_short_target_one_byte.

(* ... or whose byte 2 is inside a multi-byte character *)
Theorem C25_refuted_nonboundary_target : ~ C25_statement.
Proof. exact refuted_nonboundary_target. Qed.
Print Assumptions C25_refuted_nonboundary_target.

(* ... the same slice on a table Target *)
Theorem C25_refuted_short_table_target : ~ C25_statement.
Proof. exact refuted_short_table_target. Qed.
Print Assumptions C25_refuted_short_table_target.

(* F19c: a worksheet Target without "/worksheets/"  (worksheets.rs `path.push_str(v[1])`) *)
Theorem C25_refuted_no_worksheets_dir : ~ C25_statement.
Proof. exact refuted_no_worksheets_dir. Qed.
Print Assumptions C25_refuted_no_worksheets_dir.

(* F19d REPAIRED (f8b4521: `rels.get(&sheet.id).ok_or_else(..)?`): a sheet whose r:id is not in
   workbook.xml.rels is an import error *)
Theorem C25_fixed_dangling_rid : guard w_dangling_rid = true /\ load_skel w_dangling_rid = Err.
Proof. exact fixed_dangling_rid. Qed.
Print Assumptions C25_fixed_dangling_rid.

(* F19e REPAIRED (d5aa85e: `sheets.get(index).ok_or_else(..)?`): a localSheetId beyond the
   sheets is an import error *)
Theorem C25_fixed_local_sheet_id :
  guard w_local_sheet_id_out_of_range = true /\ load_skel w_local_sheet_id_out_of_range = Err.
Proof. exact fixed_local_sheet_id_out_of_range. Qed.
Print Assumptions C25_fixed_local_sheet_id.

(* new: defined names but no worksheet relationship  (mod.rs `worksheets[0]`) *)
Theorem C25_refuted_defined_name_without_worksheets : ~ C25_statement.
Proof. exact refuted_defined_name_without_worksheets. Qed.
Print Assumptions C25_refuted_defined_name_without_worksheets.

(* new: styles.xml without <fonts>/<fills>/<borders>/<cellStyleXfs>/<cellStyles>/<cellXfs>
   (styles.rs, six `.collect::<Vec<Node>>()[0]`) *)
Theorem C25_refuted_styles_no_fonts : ~ C25_statement.
Proof. exact refuted_styles_no_fonts. Qed.
Print Assumptions C25_refuted_styles_no_fonts.
Theorem C25_refuted_styles_no_fills : ~ C25_statement.
Proof. exact refuted_styles_no_fills. Qed.
Print Assumptions C25_refuted_styles_no_fills.
Theorem C25_refuted_styles_no_borders : ~ C25_statement.
Proof. exact refuted_styles_no_borders. Qed.
Print Assumptions C25_refuted_styles_no_borders.
Theorem C25_refuted_styles_no_cellstylexfs : ~ C25_statement.
Proof. exact refuted_styles_no_cellstylexfs. Qed.
Print Assumptions C25_refuted_styles_no_cellstylexfs.
Theorem C25_refuted_styles_no_cellstyles : ~ C25_statement.
Proof. exact refuted_styles_no_cellstyles. Qed.
Print Assumptions C25_refuted_styles_no_cellstyles.
Theorem C25_refuted_styles_no_cellxfs : ~ C25_statement.
Proof. exact refuted_styles_no_cellxfs. Qed.
Print Assumptions C25_refuted_styles_no_cellxfs.

(* new: an rgb attribute of 8 bytes whose byte 2 is inside a character  (util.rs `raw[2..]`) *)
Theorem C25_refuted_rgb_nonboundary : ~ C25_statement.
Proof. exact refuted_rgb_nonboundary. Qed.
Print Assumptions C25_refuted_rgb_nonboundary.

(* new: a comment whose <t/> has no text  (worksheets.rs `n.text().unwrap()`) *)
Theorem C25_refuted_comment_t_without_text : ~ C25_statement.
Proof. exact refuted_comment_t_without_text. Qed.
Print Assumptions C25_refuted_comment_t_without_text.

(* What holds: for every package that satisfies the (decidable, structural) indexing guard, the
   importer skeleton returns Ok or Err.  The guard is the conjunction of exactly the assumptions
   still refuted above: six style containers; no rgb slice off a boundary; every <t> of a comment
   has text; every worksheet Target contains "/worksheets/"; comments/table Targets of sheet relationships are
   at least two bytes with a boundary at 2; defined names come with a loaded worksheet. *)
Theorem C25_partial : forall p : pkg, guard p = true -> load_skel p <> Panic.
Proof. exact guard_no_panic. Qed.
Print Assumptions C25_partial.

(* non-vacuity: the four valid base packages of the harness satisfy the guard and load *)
Example C25_partial_nonvacuous :
  (guard base_0 = true /\ load_skel base_0 = Ok tt) /\ (guard base_1 = true /\ load_skel base_1 = Ok tt) /\
  (guard base_2 = true /\ load_skel base_2 = Ok tt) /\ (guard base_3 = true /\ load_skel base_3 = Ok tt).
Proof. exact bases_load. Qed.
Print Assumptions C25_partial_nonvacuous.

(* tightness: each witness violates the guard (and only then can the skeleton panic) *)
Theorem C25_witnesses_violate_guard :
  guard w_short_target_empty = false /\ guard w_no_worksheets_dir = false /\
  guard w_defined_name_without_worksheets = false /\ guard w_styles_no_cellstyles = false /\
  guard w_rgb_nonboundary = false /\ guard w_comment_t_without_text = false.
Proof.
  exact (conj (proj1 panics_short_target_empty)
        (conj (proj1 panics_no_worksheets_dir) (conj (proj1 panics_defined_name_without_worksheets)
        (conj (proj1 panics_styles_no_cellstyles) (conj (proj1 panics_rgb_nonboundary)
              (proj1 panics_comment_t_without_text)))))).
Qed.
Print Assumptions C25_witnesses_violate_guard.

(* ---- the `_xHHHH_` decoder of shared strings, t="str" values and cached formula strings ----
   (shared_strings.rs decode_xlsx_escapes; its VALUE is Codec/XmlEscape.v [decode], C24).
   Index safety of its byte cursor, for EVERY byte string with the shape of UTF-8 (any &str) and
   every outcome of the hex conversion: the guard `i + 6 < len` makes `bytes[i]`, `bytes[i + 1]`,
   `bytes[i + 6]` in range; `bytes[i + 1] = 'x'` and `bytes[i + 6] = '_'` put both ends of
   `&s[i + 2..i + 6]` on character boundaries; `i += 7` and `i += c.len_utf8()` keep the cursor on
   a character start, so `s[i..]` never splits a character. *)
Theorem C25_decode_escapes_index_safe :
  forall (bytes : list Z) (scalar_ok : list Z -> bool),
  utf8_shape bytes -> decode_cursor bytes scalar_ok true <> Panic.
Proof. exact decode_cursor_safe. Qed.
Print Assumptions C25_decode_escapes_index_safe.

(* the theorem is about THIS guard: with `i + 6 <= len` the same cursor panics on "batch_x2024"
   (an escape look-alike cut off just before its closing '_'), a well-formed string *)
Theorem C25_decode_escapes_off_by_one_guard_panics :
  utf8_shape w_batch /\ decode_cursor w_batch (fun _ => true) false = Panic /\
  decode_cursor w_batch (fun _ => true) true = Ok tt.
Proof. exact (conj w_batch_shape (conj off_by_one_guard_panics code_guard_ok_on_witness)). Qed.
Print Assumptions C25_decode_escapes_off_by_one_guard_panics.
