(* Props/C25.v — xlsx import never crashes (navigation skeleton of xlsx/src/import).
   Statements only; every proof is [exact <lemma>] into Xlsx/SkeletonProofs.v, Xlsx/Refutations.v and
   Xlsx/EscapeSafeProofs.v.

   [load_skel p] is the outcome class (Ok / Err / Panic) of `load_from_xlsx_bytes` followed by
   `Model::from_workbook` on the package p, following the importer's lookups, `?`s, `.find(..)`,
   HashMap `get`s, `unwrap_or`s and boundary-guarded slices over abstract XML trees.

   HISTORY: on the tree the property was first checked against, the statement was REFUTED by 17
   witness packages (findings F19a..F19i) and only a guarded form held.  All of those sites were
   repaired in /repo (2db1935 F19a, 256a2e8 F19b, dfbff56 F19c, f8b4521 F19d, d5aa85e F19e,
   1babd25 F19f, b5c23c2 F19g, b7d4aff F19h+F19j, 4ecd40d F19i); the model follows the code, the
   guard is gone, and the statement is now PROVED at full strength for the skeleton. *)
From IronCalc Require Import Base.Prelude Xlsx.Skeleton Xlsx.SkeletonProofs Xlsx.Refutations
  Generated.Witness_c25 Xlsx.EscapeSafe Xlsx.EscapeSafeProofs.

(* the property at full strength (for the skeleton): no package makes the importer panic *)
Definition C25_statement : Prop := forall p : pkg, load_skel p <> Panic.

Theorem C25_import_never_panics : C25_statement.
Proof. exact load_skel_no_panic. Qed.
Print Assumptions C25_import_never_panics.

(* non-vacuity of the model: the four valid base packages of the harness load *)
Example C25_bases_load :
  load_skel base_0 = Ok tt /\ load_skel base_1 = Ok tt /\ load_skel base_2 = Ok tt /\ load_skel base_3 = Ok tt.
Proof. exact bases_load. Qed.
Print Assumptions C25_bases_load.

(* ---- the former refutation witnesses, now positive: the same packages (still built and imported
   by the harness on every run) are import errors, or load ---- *)
(* F19a REPAIRED (2db1935): a worksheet part without <sheetData> *)
Theorem C25_fixed_no_sheetdata : load_skel w_no_sheetdata = Err.
Proof. exact fixed_no_sheetdata. Qed.
Print Assumptions C25_fixed_no_sheetdata.

(* F19b REPAIRED (256a2e8): a comments Target of zero bytes *)
Theorem C25_fixed_short_target : load_skel w_short_target_empty = Err.
Proof. exact fixed_short_target_empty. Qed.
Print Assumptions C25_fixed_short_target.

(* F19b REPAIRED (256a2e8): a comments Target of one byte *)
Theorem C25_fixed_short_target_one_byte : load_skel w_short_target_one = Err.
Proof. exact fixed_short_target_one. Qed.
Print Assumptions C25_fixed_short_target_one_byte.

(* F19b REPAIRED (256a2e8): a comments Target whose byte 2 is inside a character *)
Theorem C25_fixed_nonboundary_target : load_skel w_nonboundary_target = Err.
Proof. exact fixed_nonboundary_target. Qed.
Print Assumptions C25_fixed_nonboundary_target.

(* F19b REPAIRED (256a2e8): a table Target of zero bytes *)
Theorem C25_fixed_short_table_target : load_skel w_short_table_target = Err.
Proof. exact fixed_short_table_target. Qed.
Print Assumptions C25_fixed_short_table_target.

(* F19c REPAIRED (dfbff56): a worksheet Target without "/worksheets/" *)
Theorem C25_fixed_no_worksheets_dir : load_skel w_no_worksheets_dir = Err.
Proof. exact fixed_no_worksheets_dir. Qed.
Print Assumptions C25_fixed_no_worksheets_dir.

(* F19d REPAIRED (f8b4521): a sheet whose r:id is not in workbook.xml.rels *)
Theorem C25_fixed_dangling_rid : load_skel w_dangling_rid = Err.
Proof. exact fixed_dangling_rid. Qed.
Print Assumptions C25_fixed_dangling_rid.

(* F19e REPAIRED (d5aa85e): a localSheetId beyond the sheets *)
Theorem C25_fixed_local_sheet_id : load_skel w_local_sheet_id_out_of_range = Err.
Proof. exact fixed_local_sheet_id_out_of_range. Qed.
Print Assumptions C25_fixed_local_sheet_id.

(* F19f REPAIRED (1babd25): defined names but no worksheet relationship *)
Theorem C25_fixed_defined_name_without_worksheets : load_skel w_defined_name_without_worksheets = Err.
Proof. exact fixed_defined_name_without_worksheets. Qed.
Print Assumptions C25_fixed_defined_name_without_worksheets.

(* F19g REPAIRED (b5c23c2): styles.xml without <fonts> *)
Theorem C25_fixed_styles_no_fonts : load_skel w_styles_no_fonts = Err.
Proof. exact fixed_styles_no_fonts. Qed.
Print Assumptions C25_fixed_styles_no_fonts.

(* F19g REPAIRED (b5c23c2): styles.xml without <fills> *)
Theorem C25_fixed_styles_no_fills : load_skel w_styles_no_fills = Err.
Proof. exact fixed_styles_no_fills. Qed.
Print Assumptions C25_fixed_styles_no_fills.

(* F19g REPAIRED (b5c23c2): styles.xml without <borders> *)
Theorem C25_fixed_styles_no_borders : load_skel w_styles_no_borders = Err.
Proof. exact fixed_styles_no_borders. Qed.
Print Assumptions C25_fixed_styles_no_borders.

(* F19g REPAIRED (b5c23c2): styles.xml without <cellStyleXfs> *)
Theorem C25_fixed_styles_no_cellstylexfs : load_skel w_styles_no_cellstylexfs = Err.
Proof. exact fixed_styles_no_cellstylexfs. Qed.
Print Assumptions C25_fixed_styles_no_cellstylexfs.

(* F19g REPAIRED (b5c23c2): styles.xml without <cellStyles> *)
Theorem C25_fixed_styles_no_cellstyles : load_skel w_styles_no_cellstyles = Err.
Proof. exact fixed_styles_no_cellstyles. Qed.
Print Assumptions C25_fixed_styles_no_cellstyles.

(* F19g REPAIRED (b5c23c2): styles.xml without <cellXfs> *)
Theorem C25_fixed_styles_no_cellxfs : load_skel w_styles_no_cellxfs = Err.
Proof. exact fixed_styles_no_cellxfs. Qed.
Print Assumptions C25_fixed_styles_no_cellxfs.

(* F19h REPAIRED (b7d4aff): an 8-byte rgb whose byte 2 is inside a character (now kept whole) *)
Theorem C25_fixed_rgb_nonboundary : load_skel w_rgb_nonboundary = Ok tt.
Proof. exact fixed_rgb_nonboundary. Qed.
Print Assumptions C25_fixed_rgb_nonboundary.

(* F19i REPAIRED (4ecd40d): a comment whose <t/> has no text (now read as empty) *)
Theorem C25_fixed_comment_t_without_text : load_skel w_comment_t_without_text = Ok tt.
Proof. exact fixed_comment_t_without_text. Qed.
Print Assumptions C25_fixed_comment_t_without_text.

(* ---- the `_xHHHH_` decoder of shared strings, t="str" values and cached formula strings ----
   (shared_strings.rs decode_xlsx_escapes; its VALUE is Codec/XmlEscape.v [decode], C24).
   Index safety of its byte cursor, for EVERY byte string with the shape of UTF-8 (any &str) and
   every outcome of the hex conversion: the guard `i + 6 < len` makes `bytes[i]`, `bytes[i + 1]`,
   `bytes[i + 6]` in range; `bytes[i + 1] = 'x'` and `bytes[i + 6] = '_'` put both ends of
   `&s[i + 2..i + 6]` on character boundaries; `i += 7` and `i += c.len_utf8()` keep the cursor on
   a character start, so `s[i..]` never splits a character. *)
Theorem C25_decode_escapes_index_safe :
  forall (bytes : list Z) (scalar_ok : list Z -> bool),
  utf8_shape bytes -> decode_cursor bytes scalar_ok true <> Panic.
Proof. exact decode_cursor_safe. Qed.
Print Assumptions C25_decode_escapes_index_safe.

(* the theorem is about THIS guard: with `i + 6 <= len` the same cursor panics on "batch_x2024"
   (an escape look-alike cut off just before its closing '_'), a well-formed string *)
Theorem C25_decode_escapes_off_by_one_guard_panics :
  utf8_shape w_batch /\ decode_cursor w_batch (fun _ => true) false = Panic /\
  decode_cursor w_batch (fun _ => true) true = Ok tt.
Proof. exact (conj w_batch_shape (conj off_by_one_guard_panics code_guard_ok_on_witness)). Qed.
Print Assumptions C25_decode_escapes_off_by_one_guard_panics.
