(* Props/C13.v — Deleting rows or columns shifts the rest and breaks only what was deleted.
   Statements only; proofs are [exact] into Syntax/DisplaceProofs.v. Scope as in Props/C12.v:
   the reference, range and #REF! clauses about the faithful model; content and values are
   decided on the implementation by the oracle (notes/C13.md). *)
From IronCalc Require Import Base.Prelude Base.Dec Codec.Column Codec.RefA1
  Syntax.Displace Syntax.DisplaceProofs.

Theorem C13_references_follow_cells :
  forall d s p, disp_sheet d = Some s -> displace_pos d false false s p = cell_map d p.
Proof. exact displace_pos_is_cell_map. Qed.
Print Assumptions C13_references_follow_cells.

(* rows, full statement: a reference (any flags, any anchor, formula on the edited sheet or
   not) to a cell inside the deleted band becomes "#REF!"; to a cell outside it, it follows the
   cell to cell_map, read from the moved anchor *)
Theorem C13_refs_rows :
  forall s r k same q q' a row col,
  0 < k -> 1 <= r -> a_sheet a = s -> resolve q a = (row, col) ->
  1 <= row <= LAST_ROW -> 1 <= col <= LAST_COLUMN ->
  anchor_map (DRow s r (- k)) same q = Some q' ->
  (r <= row < r + k ->
     cell_map (DRow s r (- k)) (row, col) = None /\
     apply_disp_full (DRow s r (- k)) same q a = RwRefError) /\
  (row < r \/ r + k <= row ->
     exists t, cell_map (DRow s r (- k)) (row, col) = Some t /\
     t = ((if row <? r then row else row - k), col) /\
     exists a', apply_disp_full (DRow s r (- k)) same q a = RwRef q' a' /\ follows q' a a' t).
Proof. exact del_row_rewrite. Qed.
Print Assumptions C13_refs_rows.

Theorem C13_refs_columns :
  forall s c k same q q' a row col,
  0 < k -> 1 <= c -> a_sheet a = s -> resolve q a = (row, col) ->
  1 <= row <= LAST_ROW -> 1 <= col <= LAST_COLUMN ->
  anchor_map (DCol s c (- k)) same q = Some q' ->
  (c <= col < c + k ->
     cell_map (DCol s c (- k)) (row, col) = None /\
     apply_disp_full (DCol s c (- k)) same q a = RwRefError) /\
  (col < c \/ c + k <= col ->
     exists t, cell_map (DCol s c (- k)) (row, col) = Some t /\
     t = (row, (if col <? c then col else col - k)) /\
     exists a', apply_disp_full (DCol s c (- k)) same q a = RwRef q' a' /\ follows q' a a' t).
Proof. exact del_col_rewrite. Qed.
Print Assumptions C13_refs_columns.

(* the printed form, corner by corner *)
Theorem C13_printed_reference_rows :
  forall s r k q a fc row col,
  0 < k -> 1 <= r -> a_sheet a = s -> resolve q a = (row, col) -> 1 <= row -> 1 <= col <= LAST_COLUMN ->
  (row < r ->
     cell_map (DRow s r (- k)) (row, col) = Some (row, col) /\
     displace (DRow s r (- k)) false fc q a = Some (mkp row col a)) /\
  (r <= row < r + k ->
     cell_map (DRow s r (- k)) (row, col) = None /\
     displace (DRow s r (- k)) false fc q a = None) /\
  (r + k <= row ->
     cell_map (DRow s r (- k)) (row, col) = Some (row - k, col) /\
     displace (DRow s r (- k)) false fc q a = Some (mkp (row - k) col a)).
Proof. exact del_row_ref. Qed.
Print Assumptions C13_printed_reference_rows.

Theorem C13_printed_reference_columns :
  forall s c k q a fr row col,
  0 < k -> 1 <= c -> a_sheet a = s -> resolve q a = (row, col) -> 1 <= row -> 1 <= col <= LAST_COLUMN ->
  (col < c ->
     cell_map (DCol s c (- k)) (row, col) = Some (row, col) /\
     displace (DCol s c (- k)) fr false q a = Some (mkp row col a)) /\
  (c <= col < c + k ->
     cell_map (DCol s c (- k)) (row, col) = None /\
     displace (DCol s c (- k)) fr false q a = None) /\
  (c + k <= col ->
     cell_map (DCol s c (- k)) (row, col) = Some (row, col - k) /\
     displace (DCol s c (- k)) fr false q a = Some (mkp row (col - k) a)).
Proof. exact del_col_ref. Qed.
Print Assumptions C13_printed_reference_columns.

(* ranges: each corner on its own — a corner inside the band is "#REF!" (the text is
   "#REF!:A4"), the other corner follows its cell; a range spanning the band shrinks *)
Theorem C13_ranges_rows :
  forall s r k q g r1 c1 r2 c2,
  0 < k -> 1 <= r -> g_sheet g = s -> is_full_row g = false ->
  resolve q (corner1 g) = (r1, c1) -> resolve q (corner2 g) = (r2, c2) ->
  1 <= r1 -> 1 <= r2 -> 1 <= c1 <= LAST_COLUMN -> 1 <= c2 <= LAST_COLUMN ->
  let f := fun x => if x <? r then Some x else if x <? r + k then None else Some (x - k) in
  displace_range (DRow s r (- k)) q g =
    (match f r1 with Some x => Some (mkp x c1 (corner1 g)) | None => None end,
     match f r2 with Some x => Some (mkp x c2 (corner2 g)) | None => None end).
Proof. exact del_row_range. Qed.
Print Assumptions C13_ranges_rows.

Theorem C13_spanning_range_shrinks :
  forall s r k q g r1 c1 r2 c2,
  0 < k -> 1 <= r -> g_sheet g = s -> is_full_row g = false ->
  resolve q (corner1 g) = (r1, c1) -> resolve q (corner2 g) = (r2, c2) ->
  1 <= r1 -> 1 <= c1 <= LAST_COLUMN -> 1 <= c2 <= LAST_COLUMN ->
  r1 < r -> r + k <= r2 ->
  displace_range (DRow s r (- k)) q g =
    (Some (mkp r1 c1 (corner1 g)), Some (mkp (r2 - k) c2 (corner2 g))).
Proof. exact del_row_range_spanning_shrinks. Qed.
Print Assumptions C13_spanning_range_shrinks.

(* "=SUM(A3:A6)" in B1, rows 2..3 deleted: the code prints "#REF!:A4" *)
Theorem C13_deleted_corner_text :
  displace_range_text (DRow 0 2 (-2)) (1, 2)
    {| g_sheet := 0; g_row1 := 2; g_col1 := -1; g_abs_row1 := false; g_abs_col1 := false;
       g_row2 := 5; g_col2 := -1; g_abs_row2 := false; g_abs_col2 := false |}
  = [35; 82; 69; 70; 33; 58; 65; 52].
Proof. exact del_corner_text. Qed.
Print Assumptions C13_deleted_corner_text.

Theorem C13_full_row_range_exempt :
  forall s r delta q g c1 c2,
  is_full_row g = true ->
  snd (resolve q (corner1 g)) = c1 -> snd (resolve q (corner2 g)) = c2 ->
  1 <= c1 <= LAST_COLUMN -> 1 <= c2 <= LAST_COLUMN ->
  displace_range (DRow s r delta) q g =
    (Some (mkp 1 c1 (corner1 g)), Some (mkp LAST_ROW c2 (corner2 g))).
Proof. exact full_row_range_exempt. Qed.
Print Assumptions C13_full_row_range_exempt.

Theorem C13_other_sheet_unchanged :
  forall d s' q a fr fc row col,
  disp_sheet d = Some s' -> a_sheet a <> s' -> resolve q a = (row, col) ->
  1 <= row -> 1 <= col <= LAST_COLUMN ->
  displace d fr fc q a = Some (mkp row col a).
Proof. exact other_sheet_ref_unchanged. Qed.
Print Assumptions C13_other_sheet_unchanged.

(* the premise [1 <= r] of the theorems above is what delete_rows / delete_columns validate *)
Theorem C13_accepted_delete_band_on_grid :
  forall last r k, 0 < k -> edit_valid last r (- k) = true -> 1 <= r /\ r + k - 1 <= last.
Proof. exact accepted_delete_on_grid. Qed.
Print Assumptions C13_accepted_delete_band_on_grid.

(* non-vacuity: "=B5" in C7, rows 4..5 deleted -> "#REF!"; "=B6" -> "=B4" seen from C5 *)
Example C13_nonvacuous :
  apply_disp_full (DRow 0 4 (-2)) true (7, 3)
    {| a_sheet := 0; a_row := -2; a_col := -1; a_abs_row := false; a_abs_col := false |} = RwRefError /\
  apply_disp_full (DRow 0 4 (-2)) true (7, 3)
    {| a_sheet := 0; a_row := -1; a_col := -1; a_abs_row := false; a_abs_col := false |} =
  RwRef (5, 3) {| a_sheet := 0; a_row := -1; a_col := -1; a_abs_row := false; a_abs_col := false |}.
Proof. exact del_row_rewrite_example. Qed.
