(* Props/C28.v — The selection always points at an existing sheet and cell.
   Statements only; every proof is [exact <lemma>] into UserModel/SelectionProofs.v.
   [sel_ok s]: the selected sheet exists, its selected cell and both corners of its selected
   range are on the grid, and the cell lies inside the hull of the range.
   [inv s]: the same for EVERY sheet's view (any sheet can become the selected one) + the sheet
   entries of the undo/redo stacks are well formed.
   The property as stated is FALSE on the current code (three refutations, each a history replayed
   on the implementation by harness/c28: on_area_selecting twice, on_paste_styles); it holds along
   every history that avoids the decidable classes [bad] of these two methods (Selection.v), from
   any workbook.  delete_sheet, redo of DeleteSheet, on_page_down and on_page_up, refuted on the
   earlier tree, are repaired in /repo (422225e, ccc73d8, 0ee396a) and now proved unconditionally. *)
From IronCalc Require Import Base.Prelude Base.Dec UserModel.Selection UserModel.SelectionProofs.

(* the initial workbook satisfies the property *)
Theorem C28_init : inv init /\ sel_ok init.
Proof. exact (conj init_inv (inv_sel_ok init init_inv)). Qed.
Print Assumptions C28_init.

(* one step: every operation of ui.rs, every sheet / line operation of common.rs, undo and redo
   preserve the invariant, except on_area_selecting / on_paste_styles inside their classes *)
Theorem C28_preservation : forall s o, inv s -> bad s o = false -> inv (step s o).
Proof. exact step_inv. Qed.
Print Assumptions C28_preservation.

(* the statement of the property … *)
Definition C28_statement : Prop := forall ops, sel_ok (run init ops).

(* … is refuted by the faithful model *)
Theorem C28_refuted : ~ C28_statement.
Proof. exact C28_refuted_thm. Qed.
Print Assumptions C28_refuted.

(* F22c: on_area_selecting stores any target *)
Theorem C28_refuted_area_selecting : ~ sel_ok (run init [OAreaSel 0 (-5)]).
Proof. exact refuted_area_offgrid. Qed.
Print Assumptions C28_refuted_area_selecting.

(* new: on_area_selecting anchors the range at its old start corner, not at the selected cell *)
Theorem C28_refuted_area_selecting_anchor :
  ~ sel_ok (run init [OSetCell 5 5; OSetRange 1 1 5 5; OAreaSel 2 2]).
Proof. exact refuted_area_anchor. Qed.
Print Assumptions C28_refuted_area_selecting_anchor.

(* new: on_paste_styles rebuilds a reversed range from its start corner *)
Theorem C28_refuted_paste_styles : ~ sel_ok (run init [OSetRange 5 5 1 1; OPaste 1 1]).
Proof. exact refuted_paste. Qed.
Print Assumptions C28_refuted_paste_styles.

(* every witness avoids all classes up to its last step and meets one class there *)
Theorem C28_witnesses_tight :
  forallb only_last_bad [w_area_offgrid; w_area_anchor; w_paste] = true.
Proof. exact witnesses_tight. Qed.
Print Assumptions C28_witnesses_tight.

(* the partial property: along every history that avoids the classes, the selection is valid
   after every prefix (the statement for [ops] covers all its prefixes, [avoids] being
   prefix-closed) — on the selected sheet and on every other sheet *)
Theorem C28_partial :
  forall ops, avoids init ops = true -> sel_ok (run init ops) /\ all_ok_b (run init ops) = true.
Proof. exact C28_partial_thm. Qed.
Print Assumptions C28_partial.

(* … from any workbook: any number of sheets, any hidden rows/columns, sizes and cell contents *)
Theorem C28_partial_any_workbook :
  forall l ops, l <> [] -> Forall sheet_ok l -> avoids (mk_state l) ops = true -> sel_ok (run (mk_state l) ops).
Proof. exact C28_partial_any_workbook. Qed.
Print Assumptions C28_partial_any_workbook.

(* non-vacuity of the implication: a 44-step history through every kind of operation *)
Example C28_partial_nonvacuous : avoids init nv_history = true /\ length nv_history = 44%nat.
Proof. exact nv_history_avoids. Qed.
Print Assumptions C28_partial_nonvacuous.

(* the validated setters never break the invariant (no class needed) *)
Theorem C28_setters : forall s, inv s ->
  (forall i, inv (step s (OSetSheet i))) /\
  (forall r c, inv (step s (OSetCell r c))) /\
  (forall r1 c1 r2 c2, inv (step s (OSetRange r1 c1 r2 c2))) /\
  (forall t l, inv (step s (OTopLeft t l))).
Proof. exact setters_inv. Qed.
Print Assumptions C28_setters.

(* arrow keys, shift+arrow, ctrl+arrow, page down / up: whatever the hidden rows/columns, sizes,
   cells and window *)
Theorem C28_navigation : forall s, inv s ->
  (forall d, inv (step s (OArrow d))) /\
  (forall k, inv (step s (OExpand k))) /\
  (forall d, inv (step s (ONavEdge d))) /\
  inv (step s OPageDown) /\ inv (step s OPageUp).
Proof. exact navigation_inv. Qed.
Print Assumptions C28_navigation.

(* every sheet operation (delete at any index relative to the selected one included), undo and
   redo of anything, hiding lines *)
Theorem C28_sheet_operations : forall s, inv s ->
  inv (step s ONewSheet) /\ (forall i, inv (step s (ODuplicate i))) /\ (forall i, inv (step s (ODelete i))) /\
  (forall i j, inv (step s (OMove i j))) /\
  (forall i, inv (step s (OHide i))) /\ (forall i, inv (step s (OUnhide i))) /\
  (forall i n, inv (step s (ORename i n))) /\ inv (step s OUndo) /\ inv (step s ORedo) /\
  (forall sh a b h, inv (step s (ORowsHidden sh a b h))) /\ (forall sh a b h, inv (step s (OColsHidden sh a b h))).
Proof. exact sheet_operations_inv. Qed.
Print Assumptions C28_sheet_operations.

(* the four histories that refuted the property before the repairs now satisfy it *)
Theorem C28_repaired_witnesses :
  forallb (fun ops => avoids init ops && sel_ok_b (run init ops)) [w_delete; w_redo; w_page_down; w_page_up] = true.
Proof. exact repaired_witnesses. Qed.
Print Assumptions C28_repaired_witnesses.

(* the loops over hidden lines never run out of fuel *)
Theorem C28_scan_fuel_up : forall hid limit c,
  scan hid (fun x => x <=? limit) 1 (fuel_to c limit) c <> LFuel /\
  scan hid (fun x => x <? limit) 1 (fuel_to c limit) c <> LFuel.
Proof. exact scan_fuel_up. Qed.
Print Assumptions C28_scan_fuel_up.
Theorem C28_scan_fuel_down : forall hid c,
  scan hid (fun x => 1 <=? x) (-1) (fuel_down c) c <> LFuel /\
  scan hid (fun x => 1 <? x) (-1) (fuel_down c) c <> LFuel.
Proof. exact scan_fuel_down. Qed.
Print Assumptions C28_scan_fuel_down.
