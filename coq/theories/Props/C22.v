(* Props/C22.v — Cell-reference and sheet-name codecs are bijective.
   Statements only; every proof is [exact <lemma>] into the Codec library. *)
From IronCalc Require Import Base.Prelude Base.Dec Codec.Column Codec.ColumnProofs
  Codec.RefA1 Codec.RefA1Proofs Codec.RefRC Codec.RefRCProofs Codec.SheetName Codec.SheetNameProofs.

(* column number -> letters -> the same number, on the whole grid *)
Theorem C22_col_number_letters_number :
  forall n, 1 <= n <= 16384 ->
  exists s, number_to_column n = Some s /\ column_to_number s = Ok n.
Proof. exact col_roundtrip. Qed.
Print Assumptions C22_col_number_letters_number.

(* letters -> number -> the same letters, for every string the codec accepts (any length) *)
Theorem C22_col_letters_number_letters :
  forall s n, column_to_number s = Ok n -> number_to_column n = Some s.
Proof. exact col_injective. Qed.
Print Assumptions C22_col_letters_number_letters.

(* the i32 accumulator cannot overflow on anything the length guard lets through *)
Theorem C22_col_no_overflow :
  forall s, (length s <= 6)%nat -> col_overflows 0 s = false.
Proof. exact no_overflow_short. Qed.
Print Assumptions C22_col_no_overflow.

(* A1: print then parse gives back row, column and both flags, for every cell of the grid *)
Theorem C22_a1_roundtrip :
  forall row col abs_row abs_col,
  1 <= row <= LAST_ROW -> 1 <= col <= LAST_COLUMN ->
  exists t, print_a1 row col abs_row abs_col = Some t /\
            parse_reference_a1 t =
            Some {| p_row := row; p_col := col; p_abs_col := abs_col; p_abs_row := abs_row |}.
Proof. exact a1_roundtrip. Qed.
Print Assumptions C22_a1_roundtrip.

Theorem C22_a1_offgrid :
  forall row col abs_row abs_col,
  row < 1 \/ col < 1 \/ LAST_COLUMN < col -> print_a1 row col abs_row abs_col = None.
Proof. exact a1_offgrid. Qed.
Print Assumptions C22_a1_offgrid.

(* R1C1 (the stored form): print then lex, for every pair of i32 offsets, in any context
   that does not continue the number or the identifier *)
Theorem C22_rc_roundtrip :
  forall (alnum : Z -> bool) row col abs_row abs_col rest,
  i32 row -> i32 col ->
  (match rest with c :: _ => is_digit c = false /\ alnum c = false | [] => True end) ->
  lex_reference_r1c1 alnum (print_rc row col abs_row abs_col ++ rest) =
  Some ({| p_row := row; p_col := col; p_abs_col := abs_col; p_abs_row := abs_row |}, rest).
Proof. exact rc_roundtrip. Qed.
Print Assumptions C22_rc_roundtrip.

(* sheet names: for every character classification with the five listed facts, every
   non-empty name, quoted as the engine quotes it and followed by '!', is read back *)
Theorem C22_sheet_roundtrip :
  forall (alpha alnum ws : Z -> bool),
  ws 39 = false -> ws 33 = false -> ws 95 = false ->
  (forall c, alpha c = true -> ws c = false) ->
  alnum 33 = false -> alpha 39 = false ->
  forall n rest, n <> [] ->
  lex_sheet_prefix alpha alnum ws (quote_name alpha alnum n ++ 33 :: rest) = Some (n, rest).
Proof. exact sheet_roundtrip. Qed.
Print Assumptions C22_sheet_roundtrip.

(* ... in particular for the executable classes the correspondence runs with *)
Theorem C22_sheet_roundtrip_executable :
  forall n rest, n <> [] ->
  lex_sheet_prefix_x (quote_name_x n ++ 33 :: rest) = Some (n, rest).
Proof. exact sheet_roundtrip_x. Qed.
Print Assumptions C22_sheet_roundtrip_executable.
