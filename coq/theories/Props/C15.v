(* Props/C15.v — Moving rows or columns is a pure permutation.
   Statements only; proofs are [exact] into Syntax/DisplaceProofs.v. Scope: the permutation
   (single line, the code's loop, the block), stored references under single and block moves,
   ranges inside one region, undo, and the hidden-line delta of UserModel. Cell contents
   (re-typing) and column descriptors are decided on the implementation (notes/C15.md). *)
From IronCalc Require Import Base.Prelude Base.Dec Codec.Column Codec.RefA1
  Syntax.Displace Syntax.DisplaceProofs.

(* one line: a bijection whose inverse is the opposite move, staying inside [1, last] *)
Theorem C15_single_move_inverse :
  forall i d x, single_move (i + d) (- d) (single_move i d x) = x.
Proof. exact single_move_inverse. Qed.
Print Assumptions C15_single_move_inverse.

Theorem C15_single_move_inverse_right :
  forall i d y, single_move i d (single_move (i + d) (- d) y) = y.
Proof. exact single_move_inverse'. Qed.
Print Assumptions C15_single_move_inverse_right.

Theorem C15_single_move_range :
  forall last i d x,
  1 <= i <= last -> 1 <= i + d <= last -> 1 <= x <= last -> 1 <= single_move i d x <= last.
Proof. exact single_move_range. Qed.
Print Assumptions C15_single_move_range.

(* the loop of move_rows_action / move_columns_action (last line first when moving down,
   first line first when moving up) IS the block permutation, for every block size *)
Theorem C15_block_is_iterated :
  forall i n d x, iterate_moves i n d x = block_move i (Z.of_nat n) d x.
Proof. exact iterate_is_block. Qed.
Print Assumptions C15_block_is_iterated.

(* ... and the order matters *)
Theorem C15_other_loop_order_is_wrong :
  iter_first_first 1 2 1 1 <> block_move 1 2 1 1.
Proof. exact wrong_order_is_not_block. Qed.
Print Assumptions C15_other_loop_order_is_wrong.

(* the block move: what it does to each region, that it stays on the sheet, and its inverse
   (the move undo applies) *)
Theorem C15_block_move_cases :
  forall i n d x, 0 <= n ->
  (i <= x < i + n -> block_move i n d x = x + d) /\
  (0 < d -> i + n <= x < i + n + d -> block_move i n d x = x - n) /\
  (d < 0 -> i + d <= x < i -> block_move i n d x = x + n) /\
  (x < i -> x < i + d -> block_move i n d x = x) /\
  (i + n <= x -> i + n + d <= x -> block_move i n d x = x).
Proof. exact block_move_cases. Qed.
Print Assumptions C15_block_move_cases.

Theorem C15_block_move_range :
  forall last i n d x,
  0 < n -> 1 <= i -> i + n - 1 <= last -> 1 <= i + d -> i + n - 1 + d <= last ->
  1 <= x <= last -> 1 <= block_move i n d x <= last.
Proof. exact block_move_range. Qed.
Print Assumptions C15_block_move_range.

Theorem C15_undo :
  forall i n d x, 0 <= n -> block_move (i + d) n (- d) (block_move i n d x) = x.
Proof. exact block_move_inverse. Qed.
Print Assumptions C15_undo.

Theorem C15_block_move_injective :
  forall i n d x y, 0 <= n -> block_move i n d x = block_move i n d y -> x = y.
Proof. exact block_move_injective. Qed.
Print Assumptions C15_block_move_injective.

(* references to single cells: through the code's sequence of RowMove/ColumnMove rewrites the
   absolute target goes where the cell goes *)
Theorem C15_refs_single_cells_rows :
  forall s i n d row col,
  displace_pos_seq (move_disps true s i n d) s (row, col) = Some (block_move i (Z.of_nat n) d row, col).
Proof. exact move_rows_refs_follow. Qed.
Print Assumptions C15_refs_single_cells_rows.

Theorem C15_refs_single_cells_columns :
  forall s i n d row col,
  displace_pos_seq (move_disps false s i n d) s (row, col) = Some (row, block_move i (Z.of_nat n) d col).
Proof. exact move_cols_refs_follow. Qed.
Print Assumptions C15_refs_single_cells_columns.

(* the same at the level of stored references, every step re-typing the formula in the moved
   cell, printing it displaced and parsing it again: anchor and target both end at block_move *)
Theorem C15_stored_refs_follow_block_rows :
  forall s i n d same q a row col,
  1 <= i -> i + Z.of_nat n - 1 <= LAST_ROW -> 1 <= i + d -> i + Z.of_nat n - 1 + d <= LAST_ROW ->
  a_sheet a = s -> resolve q a = (row, col) -> 1 <= row <= LAST_ROW -> 1 <= col <= LAST_COLUMN ->
  exists q' a',
    apply_disp_seq (move_disps true s i n d) same q a = RwRef q' a' /\
    follows q' a a' (block_move i (Z.of_nat n) d row, col) /\
    q' = (if same then (block_move i (Z.of_nat n) d (fst q), snd q) else q).
Proof. exact move_rows_rewrite. Qed.
Print Assumptions C15_stored_refs_follow_block_rows.

Theorem C15_stored_ref_single_row_move :
  forall s i d same q q' a row col,
  1 <= i <= LAST_ROW -> 1 <= i + d <= LAST_ROW ->
  a_sheet a = s -> resolve q a = (row, col) ->
  1 <= row <= LAST_ROW -> 1 <= col <= LAST_COLUMN ->
  anchor_map (DRowMove s i d) same q = Some q' ->
  exists a', apply_disp_full (DRowMove s i d) same q a = RwRef q' a' /\
             follows q' a a' (single_move i d row, col).
Proof. exact move_row_rewrite. Qed.
Print Assumptions C15_stored_ref_single_row_move.

Theorem C15_stored_ref_single_column_move :
  forall s i d same q q' a row col,
  1 <= i <= LAST_COLUMN -> 1 <= i + d <= LAST_COLUMN ->
  a_sheet a = s -> resolve q a = (row, col) ->
  1 <= row <= LAST_ROW -> 1 <= col <= LAST_COLUMN ->
  anchor_map (DColMove s i d) same q = Some q' ->
  exists a', apply_disp_full (DColMove s i d) same q a = RwRef q' a' /\
             follows q' a a' (row, single_move i d col).
Proof. exact move_col_rewrite. Qed.
Print Assumptions C15_stored_ref_single_column_move.

(* a move and the opposite move give back every stored reference *)
Theorem C15_move_then_back_rows :
  forall s i d same q a,
  1 <= i <= LAST_ROW -> 1 <= i + d <= LAST_ROW ->
  1 <= fst (resolve q a) <= LAST_ROW -> 1 <= snd (resolve q a) <= LAST_COLUMN ->
  then_disp (DRowMove s i d) (DRowMove s (i + d) (- d)) same q a = Some (q, a).
Proof. exact move_row_then_back. Qed.
Print Assumptions C15_move_then_back_rows.

Theorem C15_move_then_back_columns :
  forall s i d same q a,
  1 <= i <= LAST_COLUMN -> 1 <= i + d <= LAST_COLUMN ->
  1 <= fst (resolve q a) <= LAST_ROW -> 1 <= snd (resolve q a) <= LAST_COLUMN ->
  then_disp (DColMove s i d) (DColMove s (i + d) (- d)) same q a = Some (q, a).
Proof. exact move_col_then_back. Qed.
Print Assumptions C15_move_then_back_columns.

(* ranges wholly inside the block, the shifted band, or outside both are translated rigidly:
   every cell of the range keeps its place inside the moved range *)
Theorem C15_ranges_in_one_region :
  forall i n d r1 r2 x,
  0 <= n -> r1 <= r2 -> same_region i n d r1 r2 -> r1 <= x <= r2 ->
  block_move i n d x - block_move i n d r1 = x - r1 /\
  block_move i n d r1 <= block_move i n d x <= block_move i n d r2.
Proof. exact block_move_range_rigid. Qed.
Print Assumptions C15_ranges_in_one_region.

Theorem C15_straddling_range_stretches :
  block_move 3 1 2 3 - block_move 3 1 2 2 <> 3 - 2.
Proof. exact straddling_range_stretches. Qed.
Print Assumptions C15_straddling_range_stretches.

(* UserModel's hidden-line adjustment of the delta *)
Theorem C15_hidden_delta_none :
  forall hidden last i n d,
  (forall x, hidden x = false) -> 0 < n -> d <> 0 -> 1 <= i -> i + n - 1 <= last -> 1 <= i + d ->
  i + n + d <= last ->
  hidden_adjust hidden last i n d = Ok d.
Proof. exact hidden_adjust_none. Qed.
Print Assumptions C15_hidden_delta_none.

Theorem C15_hidden_delta_bounds :
  forall hidden last i n d d',
  0 < n -> hidden_adjust hidden last i n d = Ok d' ->
  (0 < d -> d <= d' <= 2 * d + 1) /\ (d < 0 -> 2 * d <= d' <= d).
Proof. exact hidden_adjust_sign. Qed.
Print Assumptions C15_hidden_delta_bounds.

(* the inclusive loop bound, characterised: moving down the code looks one line past the
   landing zone; the delta is the exclusive-bound delta plus one when that line is hidden,
   and an error when that line does not exist *)
Theorem C15_hidden_delta_inclusive_bound :
  forall hidden last i n d,
  0 < d ->
  hidden_adjust hidden last i n d =
  match hidden_adjust_excl hidden last i n d with
  | Ok e => if (1 <=? i + n + d) && (i + n + d <=? last)
            then Ok (e + (if hidden (i + n + d) then 1 else 0)) else Err
  | Err => Err
  | Panic => Panic
  end.
Proof. exact hidden_adjust_inclusive. Qed.
Print Assumptions C15_hidden_delta_inclusive_bound.

Theorem C15_hidden_delta_up_is_exact :
  forall hidden last i n d,
  d < 0 -> hidden_adjust hidden last i n d = hidden_adjust_excl hidden last i n d.
Proof. exact hidden_adjust_up_exact. Qed.
Print Assumptions C15_hidden_delta_up_is_exact.

(* the off-by-one is a finding at the edge of the sheet: every downward move that ends exactly
   on the last line is valid for Model and refused by UserModel, whatever is hidden *)
Theorem C15_move_to_last_line_refuted :
  forall hidden last i n d,
  0 < d -> 0 < n -> 1 <= i -> i + n - 1 + d = last ->
  move_valid last i n d = true /\ hidden_adjust hidden last i n d = Err.
Proof. exact hidden_adjust_rejects_move_to_last_line. Qed.
Print Assumptions C15_move_to_last_line_refuted.

(* ... and harmless elsewhere: jumping over one more (hidden) line changes the relative order
   of no two other lines *)
Theorem C15_extra_hidden_line_is_invisible :
  forall i n d x y,
  0 < n -> 0 < d -> x <> i + n + d -> y <> i + n + d ->
  (block_move i n d x < block_move i n d y <-> block_move i n (d + 1) x < block_move i n (d + 1) y).
Proof. exact extra_hidden_line_is_invisible. Qed.
Print Assumptions C15_extra_hidden_line_is_invisible.

(* non-vacuity *)
Example C15_nonvacuous :
  map (iterate_moves 2 2 2) [1; 2; 3; 4; 5; 6] = [1; 4; 5; 2; 3; 6] /\
  map (block_move 2 2 2) [1; 2; 3; 4; 5; 6] = [1; 4; 5; 2; 3; 6].
Proof. exact block_move_example. Qed.

Example C15_hidden_nonvacuous :
  hidden_adjust (fun x => x =? 5) LAST_ROW 3 1 1 = Ok 2 /\
  hidden_adjust_excl (fun x => x =? 5) LAST_ROW 3 1 1 = Ok 1 /\
  hidden_adjust (fun _ => false) LAST_ROW (LAST_ROW - 1) 1 1 = Err /\
  move_valid LAST_ROW (LAST_ROW - 1) 1 1 = true.
Proof. exact hidden_adjust_example. Qed.
