(* Props/C06.v — Computed values match reference spreadsheet semantics (core language).
   The rules as readable facts about the model, for every NumOps instance; the model itself
   is tied to the implementation by the bounded-exhaustive differential check.  Statements only. *)
From IronCalc Require Import Base.Prelude Eval.NumOps Eval.Value Eval.Coerce Eval.Ops Eval.Funs
  Eval.Eval Eval.OpsProofs.

Section C06.
Context {num : Type} (N : NumOps num) (env : cref -> value num) (a : cref).
Notation ev := (eval N env a).

(* the left operand's error wins in every binary operator *)
Theorem C06_left_error_wins : forall l r e, ev l = VErr e ->
  (forall o, ev (EBin o l r) = VErr e) /\ ev (EConcat l r) = VErr e /\ (forall k, ev (ECmp k l r) = VErr e).
Proof. exact (fun l r e H => conj (fun o => left_error_wins_arith N env a o l r e H)
                 (conj (left_error_wins_concat N env a l r e H) (fun k => left_error_wins_compare N env a k l r e H))). Qed.

Theorem C06_right_error_after_number : forall o l r x e, ev l = VNum x -> ev r = VErr e -> ev (EBin o l r) = VErr e.
Proof. exact (right_error_after_left_number N env a). Qed.

(* Empty is 0, "" or FALSE by context; TRUE is 1 *)
Theorem C06_empty_by_context :
  cast_to_number N VEmptyCell = ROk (nzero N) /\ cast_to_string N VEmptyCell = ROk [] /\ cast_to_bool N VEmptyCell = ROk false.
Proof. exact (conj (empty_as_number N) (conj (empty_as_text N) (empty_as_bool N))). Qed.
Theorem C06_true_is_one : cast_to_number N (VBool true) = ROk (none_ N) /\ cast_to_number N (VBool false) = ROk (nzero N).
Proof. exact (conj (true_as_number N) (false_as_number N)). Qed.

(* a text used as a logical is compared AFTER lowercasing: every case variant of "true"/"false" counts, nothing else does *)
Theorem C06_text_as_bool_case_insensitive : forall s,
  (str_lower N s = t_true -> cast_to_bool N (VStr s) = ROk true) /\
  (str_lower N s = t_false -> cast_to_bool N (VStr s) = ROk false) /\
  (str_lower N s <> t_true -> str_lower N s <> t_false -> cast_to_bool N (VStr s) = RErr EVALUE).
Proof. exact (text_as_bool_case_insensitive N). Qed.

(* text operands of arithmetic go through of_text, else #VALUE! *)
Theorem C06_text_operand : forall o l r s, ev l = VStr s ->
  (nof_text N s = None -> ev (EBin o l r) = VErr EVALUE) /\
  (forall x y, nof_text N s = Some x -> ev r = VNum y -> ev (EBin o l r) = res_value (apply_op N o x y)).
Proof. exact (fun o l r s H => conj (text_operand_not_numeric N env a o l r s H)
                 (fun x y H1 H2 => text_operand_numeric N env a o l r s x y H H1 H2)). Qed.

Theorem C06_arithmetic_on_numbers : forall o l r x y, ev l = VNum x -> ev r = VNum y -> ev (EBin o l r) = res_value (apply_op N o x y).
Proof. exact (arith_numbers N env a). Qed.
Theorem C06_division_by_zero : forall l r x y, ev l = VNum x -> ev r = VNum y -> nis_zero N y = true -> ev (EBin ODiv l r) = VErr EDIV.
Proof. exact (division_by_zero N env a). Qed.

(* each operator returns a value of a fixed class (or an error, or an array of such) *)
Theorem C06_result_classes : forall l r,
  (forall o, is_num_err_arr (ev (EBin o l r))) /\ is_str_err_arr (ev (EConcat l r)) /\ (forall k, is_bool_err_arr (ev (ECmp k l r))).
Proof. exact (fun l r => conj (fun o => arith_returns_number N env a o l r)
                 (conj (concat_returns_text N env a l r) (fun k => compare_returns_boolean N env a k l r))). Qed.

(* IF and IFERROR are lazy *)
Theorem C06_if_lazy : forall c t e,
  (ev c = VBool true -> ev (EFun FIf [c; t; e]) = ev t) /\ (ev c = VBool false -> ev (EFun FIf [c; t; e]) = ev e).
Proof. exact (fun c t e => conj (if_true_lazy N env a c t e) (if_false_lazy N env a c t e)). Qed.
Theorem C06_if_lazy_no_read : forall S (rd : cref -> M (S:=S) (value num)) c t e s s1,
  eval_st N rd a c s = (VBool true, s1) -> eval_st N rd a (EFun FIf [c; t; e]) s = eval_st N rd a t s1.
Proof. exact (@if_true_lazy_stateful num N a). Qed.
Theorem C06_iferror : forall x fb,
  (forall e, ev x = VErr e -> ev (EFun FIferror [x; fb]) = ev fb) /\
  (forall n, ev x = VNum n -> ev (EFun FIferror [x; fb]) = VNum n).
Proof. exact (fun x fb => conj (iferror_replaces_error N env a x fb)
                 (fun n H => iferror_passes_value N env a x fb (VNum n) H I)). Qed.

(* aggregates skip text and booleans IN RANGES but coerce DIRECT arguments *)
Theorem C06_aggregates_ranges_vs_direct : forall acc0 s b v2,
  agg_cell N FSum acc0 (VStr s) = Continue acc0 /\ agg_cell N FSum acc0 (VBool b) = Continue acc0 /\
  agg_direct N FSum false acc0 (VBool b) v2 = Continue (set_num acc0 (nadd N (a_num acc0) (num_of_bool N b))) /\
  (nof_text N s = None -> agg_direct N FSum false acc0 (VStr s) v2 = Stop (VErr EVALUE)) /\
  agg_cell N FCount acc0 (VBool b) = Continue acc0 /\ agg_direct N FCount false acc0 (VBool b) v2 = Continue (inc_cnt acc0) /\
  agg_cell N FAverage acc0 (VBool b) = Continue acc0 /\ agg_direct N FAverage false acc0 (VBool b) v2 = Continue (avg_add N acc0 (num_of_bool N b)).
Proof. exact (fun acc0 s b v2 => conj (sum_skips_text_in_range N acc0 s) (conj (sum_skips_bool_in_range N acc0 b)
   (conj (sum_coerces_direct_bool N acc0 b v2) (conj (sum_rejects_direct_text N acc0 s v2)
   (conj (count_skips_bool_in_range N acc0 b) (conj (count_counts_direct_bool N acc0 b v2)
   (conj (average_skips_bool_in_range N acc0 b) (average_coerces_direct_bool N acc0 b v2)))))))). Qed.

(* where the code departs from that rule (finding F34): MIN and MAX ignore direct text/booleans *)
Theorem C06_refuted_minmax_coerce_direct : forall acc0 s b v2,
  agg_direct N FMin false acc0 (VStr s) v2 = Continue acc0 /\ agg_direct N FMin false acc0 (VBool b) v2 = Continue acc0 /\
  agg_direct N FMax false acc0 (VStr s) v2 = Continue acc0 /\ agg_direct N FMax false acc0 (VBool b) v2 = Continue acc0.
Proof. exact (minmax_ignore_direct_text_and_bool N). Qed.

(* comparison: class order Number < Text < Boolean, case-insensitive text, empty by the other side *)
Theorem C06_class_order : forall x s b,
  compare_values N (VNum x) (VStr s) = Lt /\ compare_values N (VStr s) (VBool b) = Lt /\
  compare_values N (VNum x) (VBool b) = Lt /\ compare_values N (VStr s) (VNum x) = Gt /\
  compare_values N (VBool b) (VStr s) = Gt /\ compare_values N (VBool b) (VNum x) = Gt.
Proof. exact (class_order N). Qed.
Theorem C06_text_case_insensitive : forall s t, str_upper N s = str_upper N t -> compare_values N (VStr s) (VStr t) = Eq.
Proof. exact (text_comparison_ignores_case N). Qed.
Theorem C06_empty_compares_as_other_side : forall x s b,
  compare_values N VEmptyCell (VNum x) = compare_values N (VNum (nzero N)) (VNum x) /\
  compare_values N VEmptyCell (VStr s) = compare_values N (VStr []) (VStr s) /\
  compare_values N VEmptyCell (VBool b) = compare_values N (VBool false) (VBool b).
Proof. exact (empty_compares_as_other_side N). Qed.

(* comparison is a total pre-order, given that the 15-digit comparison of numbers is one *)
Theorem C06_comparison_total_preorder :
  (forall x, ncmp N x x = Eq) -> (forall x y, ncmp N y x = CompOpp (ncmp N x y)) ->
  (forall x y z, ncmp N x y <> Gt -> ncmp N y z <> Gt -> ncmp N x z <> Gt) ->
  (forall u, plain_value u -> compare_values N u u = Eq) /\
  (forall u v, plain_value u -> plain_value v -> vle N u v \/ vle N v u) /\
  (forall u v w, plain_value u -> plain_value v -> plain_value w -> vle N u v -> vle N v w -> vle N u w).
Proof. exact (fun H1 H2 H3 => conj (compare_refl N H1) (conj (compare_total N H2) (compare_trans N H3))). Qed.
End C06.
Print Assumptions C06_left_error_wins.
Print Assumptions C06_right_error_after_number.
Print Assumptions C06_empty_by_context.
Print Assumptions C06_true_is_one.
Print Assumptions C06_text_as_bool_case_insensitive.
Print Assumptions C06_text_operand.
Print Assumptions C06_arithmetic_on_numbers.
Print Assumptions C06_division_by_zero.
Print Assumptions C06_result_classes.
Print Assumptions C06_if_lazy.
Print Assumptions C06_if_lazy_no_read.
Print Assumptions C06_iferror.
Print Assumptions C06_aggregates_ranges_vs_direct.
Print Assumptions C06_refuted_minmax_coerce_direct.
Print Assumptions C06_class_order.
Print Assumptions C06_text_case_insensitive.
Print Assumptions C06_empty_compares_as_other_side.
Print Assumptions C06_comparison_total_preorder.

(* non-vacuity of the pre-order hypotheses: the exact integers satisfy them *)
Example C06_preorder_hypotheses_satisfiable :
  (forall x, ncmp ZOps x x = Eq) /\ (forall x y, ncmp ZOps y x = CompOpp (ncmp ZOps x y)) /\
  (forall x y z, ncmp ZOps x y <> Gt -> ncmp ZOps y z <> Gt -> ncmp ZOps x z <> Gt).
Proof. exact (conj Z.compare_refl (conj (fun x y => Z.compare_antisym x y)
  (fun x y z H1 H2 => proj1 (Z.compare_le_iff x z) (Z.le_trans x y z (proj2 (Z.compare_le_iff x y) H1) (proj2 (Z.compare_le_iff y z) H2))))). Qed.

(* all 16 spellings of "true" and all 32 of "false" (ASCII case mapping) cast to TRUE / FALSE; " TRUE" does not *)
Example C06_all_case_variants_of_true_false :
  forallb (fun v => match cast_to_bool ZOps (VStr v) with ROk true => true | _ => false end) (case_variants t_true) = true /\
  forallb (fun v => match cast_to_bool ZOps (VStr v) with ROk false => true | _ => false end) (case_variants t_false) = true /\
  length (case_variants t_true) = 16%nat /\ length (case_variants t_false) = 32%nat /\
  cast_to_bool ZOps (VStr [32; 84; 82; 85; 69]) = RErr EVALUE.
Proof. exact all_case_variants_of_true_false. Qed.
