(* Props/C17.v — Sheet rename, move and duplicate preserve values.
   Statements only; every proof is [exact <lemma>] into Syntax/RenameProofs.v.

   The code (commit 059fa54): rename_sheet_by_index re-parses every stored formula (in English, since
   9f60d5e), applies rename_sheet_in_node ([Rename.rename_node]), prints it back in the stored form and
   re-parses everything; move_sheet reorders the sheet vector and re-resolves every reference by name;
   duplicate_sheet clones the sheet and applies the same node pass with the copy's name.
   The two defects the first version of this file refuted are repaired: the WrongRangeKind arm of the
   node pass is empty (F12, 059fa54) and the re-parse no longer uses the user's locale (F65, 9f60d5e);
   their witnesses are kept as regression examples. *)
From IronCalc Require Import Base.Prelude Codec.RefA1 Syntax.Token Syntax.Ast Syntax.Printer Syntax.Parser
  Syntax.Shape Syntax.Rename Syntax.RenameProofs Codec.SheetName.

(* the property of the node pass at full strength: nothing changes but the sheet-name field of the
   references / ranges that resolve to the renamed sheet and carry a name; that field becomes the new
   name — every tree, by induction on the AST (through argument lists) *)
Theorem C17_rename_only_target : forall i n e, only_target i n e (rename_node i n e).
Proof. exact rename_only_target. Qed.
Print Assumptions C17_rename_only_target.

(* regression (former F12 witness): =SUM(Ghost!A1:A2) in D1 of Sheet1; renaming Sheet2 (index 1) to
   "Renamed" leaves the tree alone and the stored text still parses to the range on the nonexistent sheet *)
Example C17_ghost_range_regression :
  ltac:(let t := type of rename_ghost_range_regression in exact t).
Proof. exact rename_ghost_range_regression. Qed.

(* regression (former F65 witness): a two-argument call is rewritten whatever the user's locale is *)
Example C17_stored_formula_regression :
  ltac:(let t := type of rename_stored_regression in exact t).
Proof. exact rename_stored_regression. Qed.

(* the renamed tree, printed in the stored form, parses back to itself in the workbook with the sheet
   renamed — for every tree the parser returns (C09's theorem, so: none of the three associative pairs,
   user function names in lower case), every sheet list without duplicates, every new name that no
   other sheet carries, provided the formula has no reference or range on a nonexistent sheet that is
   spelled like the new name (such a reference legitimately starts to resolve: references are by name) *)
Theorem C17_rename_roundtrip :
  forall nm env (k : nat) (n : text) (e : ast),
  (k < length (pe_sheets env))%nat -> NoDup (pe_sheets env) -> In (pe_ctx_sheet env) (pe_sheets env) ->
  (forall t x, nth_error (pe_sheets env) t = Some x -> t <> k -> x <> n) ->
  image m_stored nm env e = true -> no_bad false e = true -> lower_stable nm e = true ->
  no_ghost_named n e = true ->
  let e' := rename_node (Z.of_nat k) n e in
  image m_stored nm (env_renamed k n env) e' = true /\
  parse m_stored nm (env_renamed k n env) (print m_stored nm e') = Some (e', []).
Proof. exact rename_roundtrip. Qed.
Print Assumptions C17_rename_roundtrip.

(* ... and the spelling of the new name inside that text is read back as the new name: C22's
   sheet-name codec theorem instantiated at every name is_valid_sheet_name lets through *)
Theorem C17_rename_name_survives :
  forall n rest, is_valid_sheet_name n = true ->
  lex_sheet_prefix_x (quote_name_x n ++ 33 :: rest) = Some (n, rest).
Proof. exact rename_name_survives. Qed.
Print Assumptions C17_rename_name_survives.

Example C17_rename_roundtrip_nonvacuous :
  ltac:(let t := type of rename_roundtrip_nonvacuous in exact t).
Proof. exact rename_roundtrip_nonvacuous. Qed.

(* move_sheet: the sheets are permuted, so a name denotes the same sheet afterwards (names unique);
   the call cannot fail or abort for indices in range, and the moved sheet lands at the target index *)
Theorem C17_move_resolves_same_sheet :
  forall (A : Type) (i j : nat) (l l' : list (text * A)),
  move_list i j l = Ok l' -> NoDup (map fst l) -> forall name, lookup name l' = lookup name l.
Proof. exact @move_resolves_same_sheet. Qed.
Print Assumptions C17_move_resolves_same_sheet.

Theorem C17_move_total :
  forall (A : Type) (i j : nat) (l : list A),
  (i < length l)%nat -> (j < length l)%nat -> exists l', move_list i j l = Ok l' /\ length l' = length l.
Proof. exact @move_total. Qed.
Print Assumptions C17_move_total.

Theorem C17_move_lands_at :
  forall (A : Type) (i j : nat) (l l' : list A) x,
  move_list i j l = Ok l' -> nth_error l i = Some x -> nth_error l' j = Some x.
Proof. exact @move_lands_at. Qed.
Print Assumptions C17_move_lands_at.

(* duplicate_sheet: the copy's stored formulas parse, on the copy, to the source's trees with the
   references to the source (explicit or implicit) pointing to the copy and later sheets renumbered *)
Theorem C17_duplicate_roundtrip :
  forall nm env (src : nat) (copy : text) (e : ast),
  (src < length (pe_sheets env))%nat -> NoDup (pe_sheets env) ->
  pe_ctx_sheet env = nth src (pe_sheets env) [] ->
  ~ In copy (pe_sheets env) -> pe_defnames env = [] ->
  image m_stored nm env e = true -> no_bad false e = true -> lower_stable nm e = true ->
  no_ghost_named copy e = true ->
  parse m_stored nm (env_dup src copy env) (print m_stored nm (dup_node (Z.of_nat src) copy e))
  = Some (reindex (dup_index (Z.of_nat src)) (dup_node (Z.of_nat src) copy e), []).
Proof. exact duplicate_roundtrip. Qed.
Print Assumptions C17_duplicate_roundtrip.

Example C17_duplicate_roundtrip_nonvacuous :
  ltac:(let t := type of duplicate_roundtrip_nonvacuous in exact t).
Proof. exact duplicate_roundtrip_nonvacuous. Qed.

(* the retargeting pass of duplicate_sheet is the rename pass: same frame property *)
Theorem C17_duplicate_only_target :
  forall src copy e, only_target src copy e (dup_node src copy e).
Proof. exact rename_only_target. Qed.
Print Assumptions C17_duplicate_only_target.
