(* Props/C09.v — Printing a formula and parsing it back preserves its meaning.
   Statements only; every proof is [exact <lemma>] into the Syntax library.

   State of the code (commit 1fc9128, the repair F02): the printer now writes every parenthesis the
   grammar needs, except in three associative cases it leaves bare on purpose
   (test_stringify::correct_parenthesis): a sum on the right of "+" (1+(2+3), 1+(2-3)) and a
   concatenation on the right of "&" (1&(2&3)).  There the text parses back to the left-nested
   tree: the STRUCTURE changes, the VALUE does not.  So the full-strength structural statement
   [C09_statement] is still false ([C09_refuted_*], three witnesses, [Shape.bad_pair] has exactly
   these three entries), and it is proved for the complement ([C09_partial]).  Scope: every node
   kind the parser can return (operators of every level, unary minus and percent, ranges,
   references, arrays, built-in and user functions with empty arguments, LAMBDA definitions and
   calls, @ and #, names, errors, strings, numbers); all three text forms: the display form in
   every locale and language, the stored R1C1 form, and the xlsx form (the printer with
   export_to_excel = true).  [C09_repaired] is hypothetical: with the three cases wrapped too
   ([Printer.full_policy]) nothing is excluded.  [C09_former_witnesses_roundtrip]: the witnesses of
   the 60 pairs the commit repaired come back. *)
From IronCalc Require Import Base.Prelude Codec.RefA1 Syntax.Token Syntax.Ast Syntax.Printer Syntax.Parser
  Syntax.Shape Syntax.ShapeProofs Syntax.GlueProofs Syntax.RoundTrip Syntax.FixedProofs Syntax.FuelProofs Syntax.FullRange Syntax.FullRangeProofs Syntax.Refuted.

(* the property at full strength: every tree the parser can return, in every text form, comes
   back from the tokens the lexer reads from its printed text *)
Definition C09_statement : Prop :=
  forall m nm env e, image m nm env e = true ->
  parse m nm env (glue (pm_rc m) (print m nm e)) = Some (e, []).

(* ... it does not hold: *)
Theorem C09_statement_refuted : ~ C09_statement.
Proof. exact (fun H => proj2 (proj2 (proj2 (proj2 C09_refuted_Add_Add_right))) (H m_rc nm0 env0 _ (proj1 (proj2 C09_refuted_Add_Add_right)))). Qed.
Print Assumptions C09_statement_refuted.

(* the table of missing parentheses is the predicate "printed bare although the position only
   accepts a tighter production" *)
Theorem C09_bad_pair_table : forall xlsx e, bad_child xlsx e = bad_child_table xlsx e.
Proof. exact bad_child_is_table. Qed.
Print Assumptions C09_bad_pair_table.

(* the complement: no bad pair (and user function names already in lower case, finding F62) *)
Theorem C09_partial :
  forall m nm env e,
  image m nm env e = true -> no_bad (pm_xlsx m) e = true -> lower_stable nm e = true ->
  forall f, (size e + 2 <= f)%nat -> parse_fuel m nm env f (print m nm e) = Some (e, []).
Proof. exact roundtrip_all. Qed.
Print Assumptions C09_partial.

(* where the lexer reads the printed tokens back one by one, that is the property itself *)
Theorem C09_partial_lexed :
  forall m nm env e,
  image m nm env e = true -> no_bad (pm_xlsx m) e = true -> lower_stable nm e = true ->
  glue_free (pm_rc m) (print m nm e) = true ->
  forall f, (size e + 2 <= f)%nat -> parse_fuel m nm env f (glue (pm_rc m) (print m nm e)) = Some (e, []).
Proof. exact roundtrip_glued. Qed.
Print Assumptions C09_partial_lexed.

(* ... and with the parser's own fuel (2 * tokens + 3): exactly the conclusion of [C09_statement],
   under the premises that name the findings: none of the three associative pairs (F02 remainder), lower-case user function names
   (F62), no lexer glue around ':' (F04 family) *)
Theorem C09_partial_statement :
  forall m nm env e,
  image m nm env e = true -> no_bad (pm_xlsx m) e = true -> lower_stable nm e = true ->
  glue_free (pm_rc m) (print m nm e) = true ->
  parse m nm env (glue (pm_rc m) (print m nm e)) = Some (e, []).
Proof. exact roundtrip_parse_glued. Qed.
Print Assumptions C09_partial_statement.

Theorem C09_partial_parse :
  forall m nm env e,
  image m nm env e = true -> no_bad (pm_xlsx m) e = true -> lower_stable nm e = true ->
  parse m nm env (print m nm e) = Some (e, []).
Proof. exact roundtrip_parse. Qed.
Print Assumptions C09_partial_parse.

(* the same theorem for ANY parenthesis policy: a printer that makes the decisions [pol] reads back
   every tree that has no bad pair relative to [pol] *)
Theorem C09_policy :
  forall m nm env pol, (forall n, pol_neg pol (ENum n) = false) ->
  forall e, image m nm env e = true -> no_bad_with pol (pm_xlsx m) e = true -> lower_stable nm e = true ->
  forall f, (size e + 2 <= f)%nat -> parse_fuel m nm env f (gprint m nm pol e) = Some (e, []).
Proof. exact roundtrip_policy. Qed.
Print Assumptions C09_policy.

(* ... in particular, hypothetically, for [Printer.full_policy] (the three associative cases wrapped
   as well): no bad pair is left, and the statement holds for every tree the parser can return (in
   all three text forms; user function names in lower case, F62) *)
Theorem C09_repaired :
  forall m nm env e, image m nm env e = true -> lower_stable nm e = true ->
  forall f, (size e + 2 <= f)%nat -> parse_fuel m nm env f (print_fixed m nm e) = Some (e, []).
Proof. exact roundtrip_fixed. Qed.
Print Assumptions C09_repaired.

Theorem C09_repaired_parse :
  forall m nm env e, image m nm env e = true -> lower_stable nm e = true ->
  parse m nm env (print_fixed m nm e) = Some (e, []).
Proof. exact roundtrip_parse_fixed. Qed.
Print Assumptions C09_repaired_parse.

(* the whole-row / whole-column tests of the RangeKind arms, pinned: all four conjuncts on the stored
   fields (the correspondence compares them with what the implementation's text omits, "FR" cases) *)
Theorem C09_full_column_pinned :
  forall p1 p2, full_column p1 p2 = true <->
  p_abs_col p1 = true /\ p_abs_col p2 = true /\ p_col p1 = 1 /\ p_col p2 = LAST_COLUMN.
Proof. exact full_column_iff. Qed.
Print Assumptions C09_full_column_pinned.

Theorem C09_full_row_pinned :
  forall p1 p2, full_row p1 p2 = true <->
  p_abs_row p1 = true /\ p_abs_row p2 = true /\ p_row p1 = 1 /\ p_row p2 = LAST_ROW.
Proof. exact full_row_iff. Qed.
Print Assumptions C09_full_row_pinned.

(* non-vacuity: -(2^3)%+(1<2)*SUM(,R[0]C[0])  — stored form, all hypotheses hold *)
Example C09_partial_nonvacuous :
  let e := ESum SAdd (EPct (ENeg (EPow n2 n3))) (EProd PTimes (ECmp CLt n1 n2) (ENamedFun None [102;111;111] [EEmpty; r0])) in
  image m_rc nm0 env0 e = true /\ fragment e = true /\ no_bad false e = true /\ lower_stable nm0 e = true /\
  glue_free true (print m_rc nm0 e) = true /\ parse m_rc nm0 env0 (print m_rc nm0 e) = Some (e, []).
Proof. vm_compute. repeat split. Qed.

(* ---- one witness per bad pair: the stored text of a tree the parser returns parses to another tree
   (the left-nested one: same value, different structure) *)
Theorem C09_refuted_Concat_Concat_right : bad_pair false KConcat PRight KConcat = true /\ refutes w_Concat_Concat_right.
Proof. exact Refuted.C09_refuted_Concat_Concat_right. Qed.
Print Assumptions C09_refuted_Concat_Concat_right.

Theorem C09_refuted_Add_Add_right : bad_pair false (KSum SAdd) PRight (KSum SAdd) = true /\ refutes w_Add_Add_right.
Proof. exact Refuted.C09_refuted_Add_Add_right. Qed.
Print Assumptions C09_refuted_Add_Add_right.

Theorem C09_refuted_Add_Sub_right : bad_pair false (KSum SAdd) PRight (KSum SMinus) = true /\ refutes w_Add_Sub_right.
Proof. exact Refuted.C09_refuted_Add_Sub_right. Qed.
Print Assumptions C09_refuted_Add_Sub_right.


(* the witnesses of the 60 pairs repaired by commit 1fc9128 now come back *)
Theorem C09_former_witnesses_roundtrip :
  ltac:(let t := type of Refuted.former_witnesses_roundtrip in exact t).
Proof. exact Refuted.former_witnesses_roundtrip. Qed.
Print Assumptions C09_former_witnesses_roundtrip.
