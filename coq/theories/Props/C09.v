(* Props/C09.v — Printing a formula and parsing it back preserves its meaning.
   Statements only; every proof is [exact <lemma>] into the Syntax library.

   The full-strength statement [C09_statement] is FALSE for the code as it is (finding F02): the
   printer omits parentheses for the parent / position / child-kind combinations listed in
   [Shape.bad_pair]; each entry is refuted below by a witness ([C09_refuted_*]), and the statement
   is proved for the complement ([C09_partial]).  Scope: every node kind the parser can return
   (operators of every level, unary minus and percent, ranges, references, arrays, built-in and
   user functions with empty arguments, LAMBDA definitions and calls, @ and #, names, errors,
   strings, numbers); all three text forms:
   the display form in every locale and language, the stored R1C1 form, and the xlsx form (the
   printer with export_to_excel = true, where "@x" and "x#" are function calls and therefore never
   bad pairs). *)
From IronCalc Require Import Base.Prelude Codec.RefA1 Syntax.Token Syntax.Ast Syntax.Printer Syntax.Parser
  Syntax.Shape Syntax.ShapeProofs Syntax.GlueProofs Syntax.RoundTrip Syntax.FixedProofs Syntax.FuelProofs Syntax.Refuted.

(* the property at full strength: every tree the parser can return, in every text form, comes
   back from the tokens the lexer reads from its printed text *)
Definition C09_statement : Prop :=
  forall m nm env e, image m nm env e = true ->
  parse m nm env (glue (pm_rc m) (print m nm e)) = Some (e, []).

(* ... it does not hold: *)
Theorem C09_statement_refuted : ~ C09_statement.
Proof. exact (fun H => proj2 (proj2 (proj2 (proj2 C09_refuted_Add_Concat_left))) (H m_rc nm0 env0 _ (proj1 (proj2 C09_refuted_Add_Concat_left)))). Qed.
Print Assumptions C09_statement_refuted.

(* the table of missing parentheses is the predicate "printed bare although the position only
   accepts a tighter production" *)
Theorem C09_bad_pair_table : forall xlsx e, bad_child xlsx e = bad_child_table xlsx e.
Proof. exact bad_child_is_table. Qed.
Print Assumptions C09_bad_pair_table.

(* the complement: no bad pair (and user function names already in lower case, finding F62) *)
Theorem C09_partial :
  forall m nm env e,
  image m nm env e = true -> no_bad (pm_xlsx m) e = true -> lower_stable nm e = true ->
  forall f, (size e + 2 <= f)%nat -> parse_fuel m nm env f (print m nm e) = Some (e, []).
Proof. exact roundtrip_all. Qed.
Print Assumptions C09_partial.

(* where the lexer reads the printed tokens back one by one, that is the property itself *)
Theorem C09_partial_lexed :
  forall m nm env e,
  image m nm env e = true -> no_bad (pm_xlsx m) e = true -> lower_stable nm e = true ->
  glue_free (pm_rc m) (print m nm e) = true ->
  forall f, (size e + 2 <= f)%nat -> parse_fuel m nm env f (glue (pm_rc m) (print m nm e)) = Some (e, []).
Proof. exact roundtrip_glued. Qed.
Print Assumptions C09_partial_lexed.

(* ... and with the parser's own fuel (2 * tokens + 3): exactly the conclusion of [C09_statement],
   under the premises that name the findings: no bad pair (F02), lower-case user function names
   (F62), no lexer glue around ':' (F04 family) *)
Theorem C09_partial_statement :
  forall m nm env e,
  image m nm env e = true -> no_bad (pm_xlsx m) e = true -> lower_stable nm e = true ->
  glue_free (pm_rc m) (print m nm e) = true ->
  parse m nm env (glue (pm_rc m) (print m nm e)) = Some (e, []).
Proof. exact roundtrip_parse_glued. Qed.
Print Assumptions C09_partial_statement.

Theorem C09_partial_parse :
  forall m nm env e,
  image m nm env e = true -> no_bad (pm_xlsx m) e = true -> lower_stable nm e = true ->
  parse m nm env (print m nm e) = Some (e, []).
Proof. exact roundtrip_parse. Qed.
Print Assumptions C09_partial_parse.

(* the same theorem for ANY parenthesis policy: a printer that makes the decisions [pol] reads back
   every tree that has no bad pair relative to [pol] *)
Theorem C09_policy :
  forall m nm env pol, (forall n, pol_neg pol (ENum n) = false) ->
  forall e, image m nm env e = true -> no_bad_with pol (pm_xlsx m) e = true -> lower_stable nm e = true ->
  forall f, (size e + 2 <= f)%nat -> parse_fuel m nm env f (gprint m nm pol e) = Some (e, []).
Proof. exact roundtrip_policy. Qed.
Print Assumptions C09_policy.

(* ... in particular for the proposed repair F02 ([Printer.fixed_policy], notes/C09.md): with the
   added match arms no bad pair is left, and the statement holds for every tree the parser can
   return (in all three text forms; user function names in lower case, F62) *)
Theorem C09_repaired :
  forall m nm env e, image m nm env e = true -> lower_stable nm e = true ->
  forall f, (size e + 2 <= f)%nat -> parse_fuel m nm env f (print_fixed m nm e) = Some (e, []).
Proof. exact roundtrip_fixed. Qed.
Print Assumptions C09_repaired.

Theorem C09_repaired_parse :
  forall m nm env e, image m nm env e = true -> lower_stable nm e = true ->
  parse m nm env (print_fixed m nm e) = Some (e, []).
Proof. exact roundtrip_parse_fixed. Qed.
Print Assumptions C09_repaired_parse.

(* non-vacuity: -(2^3)%+(1<2)*SUM(,R[0]C[0])  — stored form, all hypotheses hold *)
Example C09_partial_nonvacuous :
  let e := ESum SAdd (EPct (ENeg (EPow n2 n3))) (EProd PTimes (ECmp CLt n1 n2) (ENamedFun None [102;111;111] [EEmpty; r0])) in
  image m_rc nm0 env0 e = true /\ fragment e = true /\ no_bad false e = true /\ lower_stable nm0 e = true /\
  glue_free true (print m_rc nm0 e) = true /\ parse m_rc nm0 env0 (print m_rc nm0 e) = Some (e, []).
Proof. vm_compute. repeat split. Qed.

(* ---- one witness per bad pair: the stored text of a tree the parser returns parses to another tree *)

Theorem C09_refuted_Cmp_Cmp_right : bad_pair false KCmp PRight KCmp = true /\ refutes w_Cmp_Cmp_right.
Proof. exact Refuted.C09_refuted_Cmp_Cmp_right. Qed.
Print Assumptions C09_refuted_Cmp_Cmp_right.

Theorem C09_refuted_Concat_Cmp_left : bad_pair false KConcat PLeft KCmp = true /\ refutes w_Concat_Cmp_left.
Proof. exact Refuted.C09_refuted_Concat_Cmp_left. Qed.
Print Assumptions C09_refuted_Concat_Cmp_left.

Theorem C09_refuted_Concat_Cmp_right : bad_pair false KConcat PRight KCmp = true /\ refutes w_Concat_Cmp_right.
Proof. exact Refuted.C09_refuted_Concat_Cmp_right. Qed.
Print Assumptions C09_refuted_Concat_Cmp_right.

Theorem C09_refuted_Concat_Concat_right : bad_pair false KConcat PRight KConcat = true /\ refutes w_Concat_Concat_right.
Proof. exact Refuted.C09_refuted_Concat_Concat_right. Qed.
Print Assumptions C09_refuted_Concat_Concat_right.

Theorem C09_refuted_Add_Concat_left : bad_pair false (KSum SAdd) PLeft KConcat = true /\ refutes w_Add_Concat_left.
Proof. exact Refuted.C09_refuted_Add_Concat_left. Qed.
Print Assumptions C09_refuted_Add_Concat_left.

Theorem C09_refuted_Sub_Concat_left : bad_pair false (KSum SMinus) PLeft KConcat = true /\ refutes w_Sub_Concat_left.
Proof. exact Refuted.C09_refuted_Sub_Concat_left. Qed.
Print Assumptions C09_refuted_Sub_Concat_left.

Theorem C09_refuted_Add_Concat_right : bad_pair false (KSum SAdd) PRight KConcat = true /\ refutes w_Add_Concat_right.
Proof. exact Refuted.C09_refuted_Add_Concat_right. Qed.
Print Assumptions C09_refuted_Add_Concat_right.

Theorem C09_refuted_Add_Add_right : bad_pair false (KSum SAdd) PRight (KSum SAdd) = true /\ refutes w_Add_Add_right.
Proof. exact Refuted.C09_refuted_Add_Add_right. Qed.
Print Assumptions C09_refuted_Add_Add_right.

Theorem C09_refuted_Add_Sub_right : bad_pair false (KSum SAdd) PRight (KSum SMinus) = true /\ refutes w_Add_Sub_right.
Proof. exact Refuted.C09_refuted_Add_Sub_right. Qed.
Print Assumptions C09_refuted_Add_Sub_right.

Theorem C09_refuted_Sub_Concat_right : bad_pair false (KSum SMinus) PRight KConcat = true /\ refutes w_Sub_Concat_right.
Proof. exact Refuted.C09_refuted_Sub_Concat_right. Qed.
Print Assumptions C09_refuted_Sub_Concat_right.

Theorem C09_refuted_Prod_Concat_left : bad_pair false KProd PLeft KConcat = true /\ refutes w_Prod_Concat_left.
Proof. exact Refuted.C09_refuted_Prod_Concat_left. Qed.
Print Assumptions C09_refuted_Prod_Concat_left.

Theorem C09_refuted_Prod_Concat_right : bad_pair false KProd PRight KConcat = true /\ refutes w_Prod_Concat_right.
Proof. exact Refuted.C09_refuted_Prod_Concat_right. Qed.
Print Assumptions C09_refuted_Prod_Concat_right.

Theorem C09_refuted_Neg_Cmp_only : bad_pair false KNeg POnly KCmp = true /\ refutes w_Neg_Cmp_only.
Proof. exact Refuted.C09_refuted_Neg_Cmp_only. Qed.
Print Assumptions C09_refuted_Neg_Cmp_only.

Theorem C09_refuted_Neg_Concat_only : bad_pair false KNeg POnly KConcat = true /\ refutes w_Neg_Concat_only.
Proof. exact Refuted.C09_refuted_Neg_Concat_only. Qed.
Print Assumptions C09_refuted_Neg_Concat_only.

Theorem C09_refuted_Neg_Prod_only : bad_pair false KNeg POnly KProd = true /\ refutes w_Neg_Prod_only.
Proof. exact Refuted.C09_refuted_Neg_Prod_only. Qed.
Print Assumptions C09_refuted_Neg_Prod_only.

Theorem C09_refuted_Pct_Cmp_only : bad_pair false KPct POnly KCmp = true /\ refutes w_Pct_Cmp_only.
Proof. exact Refuted.C09_refuted_Pct_Cmp_only. Qed.
Print Assumptions C09_refuted_Pct_Cmp_only.

Theorem C09_refuted_Pct_Concat_only : bad_pair false KPct POnly KConcat = true /\ refutes w_Pct_Concat_only.
Proof. exact Refuted.C09_refuted_Pct_Concat_only. Qed.
Print Assumptions C09_refuted_Pct_Concat_only.

Theorem C09_refuted_Pct_Add_only : bad_pair false KPct POnly (KSum SAdd) = true /\ refutes w_Pct_Add_only.
Proof. exact Refuted.C09_refuted_Pct_Add_only. Qed.
Print Assumptions C09_refuted_Pct_Add_only.

Theorem C09_refuted_Pct_Sub_only : bad_pair false KPct POnly (KSum SMinus) = true /\ refutes w_Pct_Sub_only.
Proof. exact Refuted.C09_refuted_Pct_Sub_only. Qed.
Print Assumptions C09_refuted_Pct_Sub_only.

Theorem C09_refuted_Pct_Prod_only : bad_pair false KPct POnly KProd = true /\ refutes w_Pct_Prod_only.
Proof. exact Refuted.C09_refuted_Pct_Prod_only. Qed.
Print Assumptions C09_refuted_Pct_Prod_only.

Theorem C09_refuted_Pct_Pow_only : bad_pair false KPct POnly KPow = true /\ refutes w_Pct_Pow_only.
Proof. exact Refuted.C09_refuted_Pct_Pow_only. Qed.
Print Assumptions C09_refuted_Pct_Pow_only.

Theorem C09_refuted_Range_Cmp_left : bad_pair false KRangeOp PLeft KCmp = true /\ refutes w_Range_Cmp_left.
Proof. exact Refuted.C09_refuted_Range_Cmp_left. Qed.
Print Assumptions C09_refuted_Range_Cmp_left.

Theorem C09_refuted_Range_Concat_left : bad_pair false KRangeOp PLeft KConcat = true /\ refutes w_Range_Concat_left.
Proof. exact Refuted.C09_refuted_Range_Concat_left. Qed.
Print Assumptions C09_refuted_Range_Concat_left.

Theorem C09_refuted_Range_Add_left : bad_pair false KRangeOp PLeft (KSum SAdd) = true /\ refutes w_Range_Add_left.
Proof. exact Refuted.C09_refuted_Range_Add_left. Qed.
Print Assumptions C09_refuted_Range_Add_left.

Theorem C09_refuted_Range_Sub_left : bad_pair false KRangeOp PLeft (KSum SMinus) = true /\ refutes w_Range_Sub_left.
Proof. exact Refuted.C09_refuted_Range_Sub_left. Qed.
Print Assumptions C09_refuted_Range_Sub_left.

Theorem C09_refuted_Range_Prod_left : bad_pair false KRangeOp PLeft KProd = true /\ refutes w_Range_Prod_left.
Proof. exact Refuted.C09_refuted_Range_Prod_left. Qed.
Print Assumptions C09_refuted_Range_Prod_left.

Theorem C09_refuted_Range_Pow_left : bad_pair false KRangeOp PLeft KPow = true /\ refutes w_Range_Pow_left.
Proof. exact Refuted.C09_refuted_Range_Pow_left. Qed.
Print Assumptions C09_refuted_Range_Pow_left.

Theorem C09_refuted_Range_Neg_left : bad_pair false KRangeOp PLeft KNeg = true /\ refutes w_Range_Neg_left.
Proof. exact Refuted.C09_refuted_Range_Neg_left. Qed.
Print Assumptions C09_refuted_Range_Neg_left.

Theorem C09_refuted_Range_Pct_left : bad_pair false KRangeOp PLeft KPct = true /\ refutes w_Range_Pct_left.
Proof. exact Refuted.C09_refuted_Range_Pct_left. Qed.
Print Assumptions C09_refuted_Range_Pct_left.

Theorem C09_refuted_Range_Range_left : bad_pair false KRangeOp PLeft KRangeOp = true /\ refutes w_Range_Range_left.
Proof. exact Refuted.C09_refuted_Range_Range_left. Qed.
Print Assumptions C09_refuted_Range_Range_left.

Theorem C09_refuted_Range_Cmp_right : bad_pair false KRangeOp PRight KCmp = true /\ refutes w_Range_Cmp_right.
Proof. exact Refuted.C09_refuted_Range_Cmp_right. Qed.
Print Assumptions C09_refuted_Range_Cmp_right.

Theorem C09_refuted_Range_Concat_right : bad_pair false KRangeOp PRight KConcat = true /\ refutes w_Range_Concat_right.
Proof. exact Refuted.C09_refuted_Range_Concat_right. Qed.
Print Assumptions C09_refuted_Range_Concat_right.

Theorem C09_refuted_Range_Add_right : bad_pair false KRangeOp PRight (KSum SAdd) = true /\ refutes w_Range_Add_right.
Proof. exact Refuted.C09_refuted_Range_Add_right. Qed.
Print Assumptions C09_refuted_Range_Add_right.

Theorem C09_refuted_Range_Sub_right : bad_pair false KRangeOp PRight (KSum SMinus) = true /\ refutes w_Range_Sub_right.
Proof. exact Refuted.C09_refuted_Range_Sub_right. Qed.
Print Assumptions C09_refuted_Range_Sub_right.

Theorem C09_refuted_Range_Prod_right : bad_pair false KRangeOp PRight KProd = true /\ refutes w_Range_Prod_right.
Proof. exact Refuted.C09_refuted_Range_Prod_right. Qed.
Print Assumptions C09_refuted_Range_Prod_right.

Theorem C09_refuted_Range_Pow_right : bad_pair false KRangeOp PRight KPow = true /\ refutes w_Range_Pow_right.
Proof. exact Refuted.C09_refuted_Range_Pow_right. Qed.
Print Assumptions C09_refuted_Range_Pow_right.

Theorem C09_refuted_Range_Neg_right : bad_pair false KRangeOp PRight KNeg = true /\ refutes w_Range_Neg_right.
Proof. exact Refuted.C09_refuted_Range_Neg_right. Qed.
Print Assumptions C09_refuted_Range_Neg_right.

Theorem C09_refuted_Range_Pct_right : bad_pair false KRangeOp PRight KPct = true /\ refutes w_Range_Pct_right.
Proof. exact Refuted.C09_refuted_Range_Pct_right. Qed.
Print Assumptions C09_refuted_Range_Pct_right.

Theorem C09_refuted_Range_Range_right : bad_pair false KRangeOp PRight KRangeOp = true /\ refutes w_Range_Range_right.
Proof. exact Refuted.C09_refuted_Range_Range_right. Qed.
Print Assumptions C09_refuted_Range_Range_right.

Theorem C09_refuted_Range_At_right : bad_pair false KRangeOp PRight KAt = true /\ refutes w_Range_At_right.
Proof. exact Refuted.C09_refuted_Range_At_right. Qed.
Print Assumptions C09_refuted_Range_At_right.

Theorem C09_refuted_Range_Spill_right : bad_pair false KRangeOp PRight KSpill = true /\ refutes w_Range_Spill_right.
Proof. exact Refuted.C09_refuted_Range_Spill_right. Qed.
Print Assumptions C09_refuted_Range_Spill_right.

Theorem C09_refuted_At_Cmp_only : bad_pair false KAt POnly KCmp = true /\ refutes w_At_Cmp_only.
Proof. exact Refuted.C09_refuted_At_Cmp_only. Qed.
Print Assumptions C09_refuted_At_Cmp_only.

Theorem C09_refuted_At_Concat_only : bad_pair false KAt POnly KConcat = true /\ refutes w_At_Concat_only.
Proof. exact Refuted.C09_refuted_At_Concat_only. Qed.
Print Assumptions C09_refuted_At_Concat_only.

Theorem C09_refuted_At_Add_only : bad_pair false KAt POnly (KSum SAdd) = true /\ refutes w_At_Add_only.
Proof. exact Refuted.C09_refuted_At_Add_only. Qed.
Print Assumptions C09_refuted_At_Add_only.

Theorem C09_refuted_At_Sub_only : bad_pair false KAt POnly (KSum SMinus) = true /\ refutes w_At_Sub_only.
Proof. exact Refuted.C09_refuted_At_Sub_only. Qed.
Print Assumptions C09_refuted_At_Sub_only.

Theorem C09_refuted_At_Prod_only : bad_pair false KAt POnly KProd = true /\ refutes w_At_Prod_only.
Proof. exact Refuted.C09_refuted_At_Prod_only. Qed.
Print Assumptions C09_refuted_At_Prod_only.

Theorem C09_refuted_At_Pow_only : bad_pair false KAt POnly KPow = true /\ refutes w_At_Pow_only.
Proof. exact Refuted.C09_refuted_At_Pow_only. Qed.
Print Assumptions C09_refuted_At_Pow_only.

Theorem C09_refuted_At_Neg_only : bad_pair false KAt POnly KNeg = true /\ refutes w_At_Neg_only.
Proof. exact Refuted.C09_refuted_At_Neg_only. Qed.
Print Assumptions C09_refuted_At_Neg_only.

Theorem C09_refuted_At_Pct_only : bad_pair false KAt POnly KPct = true /\ refutes w_At_Pct_only.
Proof. exact Refuted.C09_refuted_At_Pct_only. Qed.
Print Assumptions C09_refuted_At_Pct_only.

Theorem C09_refuted_At_Range_only : bad_pair false KAt POnly KRangeOp = true /\ refutes w_At_Range_only.
Proof. exact Refuted.C09_refuted_At_Range_only. Qed.
Print Assumptions C09_refuted_At_Range_only.

Theorem C09_refuted_At_At_only : bad_pair false KAt POnly KAt = true /\ refutes w_At_At_only.
Proof. exact Refuted.C09_refuted_At_At_only. Qed.
Print Assumptions C09_refuted_At_At_only.

Theorem C09_refuted_At_Spill_only : bad_pair false KAt POnly KSpill = true /\ refutes w_At_Spill_only.
Proof. exact Refuted.C09_refuted_At_Spill_only. Qed.
Print Assumptions C09_refuted_At_Spill_only.

Theorem C09_refuted_Spill_Cmp_only : bad_pair false KSpill POnly KCmp = true /\ refutes w_Spill_Cmp_only.
Proof. exact Refuted.C09_refuted_Spill_Cmp_only. Qed.
Print Assumptions C09_refuted_Spill_Cmp_only.

Theorem C09_refuted_Spill_Concat_only : bad_pair false KSpill POnly KConcat = true /\ refutes w_Spill_Concat_only.
Proof. exact Refuted.C09_refuted_Spill_Concat_only. Qed.
Print Assumptions C09_refuted_Spill_Concat_only.

Theorem C09_refuted_Spill_Add_only : bad_pair false KSpill POnly (KSum SAdd) = true /\ refutes w_Spill_Add_only.
Proof. exact Refuted.C09_refuted_Spill_Add_only. Qed.
Print Assumptions C09_refuted_Spill_Add_only.

Theorem C09_refuted_Spill_Sub_only : bad_pair false KSpill POnly (KSum SMinus) = true /\ refutes w_Spill_Sub_only.
Proof. exact Refuted.C09_refuted_Spill_Sub_only. Qed.
Print Assumptions C09_refuted_Spill_Sub_only.

Theorem C09_refuted_Spill_Prod_only : bad_pair false KSpill POnly KProd = true /\ refutes w_Spill_Prod_only.
Proof. exact Refuted.C09_refuted_Spill_Prod_only. Qed.
Print Assumptions C09_refuted_Spill_Prod_only.

Theorem C09_refuted_Spill_Pow_only : bad_pair false KSpill POnly KPow = true /\ refutes w_Spill_Pow_only.
Proof. exact Refuted.C09_refuted_Spill_Pow_only. Qed.
Print Assumptions C09_refuted_Spill_Pow_only.

Theorem C09_refuted_Spill_Neg_only : bad_pair false KSpill POnly KNeg = true /\ refutes w_Spill_Neg_only.
Proof. exact Refuted.C09_refuted_Spill_Neg_only. Qed.
Print Assumptions C09_refuted_Spill_Neg_only.

Theorem C09_refuted_Spill_Pct_only : bad_pair false KSpill POnly KPct = true /\ refutes w_Spill_Pct_only.
Proof. exact Refuted.C09_refuted_Spill_Pct_only. Qed.
Print Assumptions C09_refuted_Spill_Pct_only.

Theorem C09_refuted_Spill_Range_only : bad_pair false KSpill POnly KRangeOp = true /\ refutes w_Spill_Range_only.
Proof. exact Refuted.C09_refuted_Spill_Range_only. Qed.
Print Assumptions C09_refuted_Spill_Range_only.

Theorem C09_refuted_Spill_At_only : bad_pair false KSpill POnly KAt = true /\ refutes w_Spill_At_only.
Proof. exact Refuted.C09_refuted_Spill_At_only. Qed.
Print Assumptions C09_refuted_Spill_At_only.

Theorem C09_refuted_Spill_Spill_only : bad_pair false KSpill POnly KSpill = true /\ refutes w_Spill_Spill_only.
Proof. exact Refuted.C09_refuted_Spill_Spill_only. Qed.
Print Assumptions C09_refuted_Spill_Spill_only.
